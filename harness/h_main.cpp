// C19-K2: the real main() of the bloc command (apps/main.cpp, renamed bloc_app_main by -Dmain=...) with its collaborators
// stubbed: Parser::parse (succeeds / raises ParseError / yields nothing), Executable::run (returns / raises RuntimeError),
// fopen, cli_parser. The argument vector is the instance parameter; outcomes of the stubs are symbolic.
// Decided: exit status 0 iff the program compiled and ran without an unhandled error; $ARG holds the program arguments in
// order when the program is compiled; the program is read from the named file / standard input.
#include <string>
#include <vector>
#include <list>
#define private public
#define protected public
#include "vx_harness.h"
#include <blocc/parser.h>
#include <blocc/executable.h>
#include <blocc/collection.h>
#include <apps/main_options.h>
#undef private
#undef protected
#include <cstdio>
#include <cstring>
using namespace vx;
int bloc_app_main(int argc, char** argv);      /* main() of apps/main.cpp compiled with -Dmain=bloc_app_main (C++ linkage) */
static int parse_outcome, run_outcome;     /* parse: 0 ok, 1 ParseError, 2 null; run: 0 ok, 1 RuntimeError */
static int parse_calls, run_calls, cli_calls, fopen_calls; static bool arg_ok, arg_seen, trusted_seen; static int arg_count;
static char opened[2][8]; static char openmode[2];
static std::list<const Statement*> L_none;
#ifndef VX_NARG
#define VX_NARG 2      /* program arguments after the file name */
#endif
static const char* PARG[3] = { "a", "-x", "b c" };
namespace bloc {
Executable* Parser::parse(Context& ctx, StreamReader& reader, bool) {
  ++parse_calls;
  Value* av = ctx.loadVariable(std::string("$ARG"));
  arg_seen = (av != nullptr); trusted_seen = ctx.trusted();
  if (av && !av->isNull() && av->type() == Value::type_literal.levelUp()) {
    Collection* c = av->collection(); arg_count = (int)c->size(); arg_ok = true;
    for (int k = 0; k < VX_NARG; ++k) if (k < arg_count) { Value& e = c->at(k); if (e.isNull() || e.literal()->compare(PARG[k]) != 0) arg_ok = false; }
  }
  if (parse_outcome == 1) throw ParseError(EXC_PARSE_INV_EXPRESSION);
  if (parse_outcome == 2) return nullptr;
  return new Executable(ctx, L_none);
}
int Executable::run(Context& ctx, const std::list<const Statement*>&) { ++run_calls; if (run_outcome == 1) throw RuntimeError(EXC_RT_DIVIDE_BY_ZERO); return 0; }
Executable::~Executable() { }
void Executable::unparse(FILE*) { }
}
void cli_parser(const MainOptions&, const std::vector<std::string>&) { ++cli_calls; }
static char fakefile[2][8]; static bool fopen_ok[2];
extern "C" FILE* fopen(const char* name, const char* mode) {
  int k = fopen_calls < 2 ? fopen_calls : 1;
  for (int i = 0; i < 7; ++i) { opened[k][i] = name[i]; if (!name[i]) break; }
  openmode[k] = mode[0]; ++fopen_calls;
  fopen_ok[k] = in_bool(8 + k);
  return fopen_ok[k] ? (FILE*)fakefile[k] : nullptr;
}
extern "C" void c19_main()
{
  static char a0[] = "bloc", a1[] = "p.b", a2[] = "a", a3[] = "-x", a4[] = "b c";
  char* argv[6] = { a0, a1, a2, a3, a4, nullptr };
  parse_outcome = in_int(0); verif_assume(parse_outcome >= 0 && parse_outcome <= 2);
  run_outcome = in_int(1); verif_assume(run_outcome >= 0 && run_outcome <= 1);
  int rc = bloc_app_main(2 + VX_NARG, argv);
  VX_WITNESS();
  verif_assert(cli_calls == 0, "C19: a program file on the command line is run, not the interactive mode");
  verif_assert(fopen_calls == 1 && std::strcmp(opened[0], "p.b") == 0 && openmode[0] == 'r', "C19: the program is read from the file named first");
  if (!fopen_ok[0]) { verif_assert(rc != 0 && parse_calls == 0, "C19: an unreadable program file gives a non-zero exit status"); return; }
  verif_assert(parse_calls == 1, "C19: the program is compiled once");
  verif_assert(arg_seen && arg_ok && arg_count == VX_NARG, "C19: $ARG holds the program arguments in order (also those that look like options) before the program is compiled");
  verif_assert(trusted_seen, "C19: the command runs its program in a trusted context");
  if (parse_outcome != 0) { verif_assert(rc != 0 && run_calls == 0, "C19: a program that does not compile is not run and gives a non-zero exit status"); return; }
  verif_assert(run_calls == 1, "C19: a compiled program is run once");
  verif_assert((rc == 0) == (run_outcome == 0), "C19: exit status is 0 exactly when the program compiled and ran without an unhandled error");
}
