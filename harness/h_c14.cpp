// C14 kernels (sequential facts that the independence / data-race freedom of clones rests on; interleavings themselves
// are outside the technique, see DESIGN.md C14).
//  c14_clone   : Context::clone() deep-copies every variable; a store in the clone is invisible in the original and
//                vice versa; flags are copied.
//  c14_execute : executing a statement of a shared compiled program writes nothing into the program object
//                (known finding: Statement::_level is written on every execute).
#include <string>
#include <vector>
#include <list>
#define private public
#define protected public
#include "vx_harness.h"
#include <blocc/statement.h>
#undef private
#undef protected
#include <cstring>
using namespace vx;
extern "C" void c14_clone()
{
  static Context ctx(1, 2);
  ctx._storage_pool.reserve(2);
  Symbol& si = ctx.registerSymbol("I", Type::INTEGER);
#ifndef VX_ONEVAR
  Symbol& ss = ctx.registerSymbol("S", Type::LITERAL);
#endif
  long i0 = in_long(0), i1 = in_long(1); unsigned char c0 = in_uchar(0), c1 = in_uchar(1); bool inull = in_bool(0), trusted = in_bool(1);
  if (!inull) ctx.storeVariable(si.id(), Value(Integer(i0)));
#ifndef VX_ONEVAR
  { Literal* l = new Literal(); l->push_back((char)c0); ctx.storeVariable(ss.id(), Value(l)); }
#endif
  ctx.trusted(trusted);
  Context* cl = ctx.clone();
  VX_WITNESS();
#ifdef VX_ONEVAR
  verif_assert(cl->_storage_pool.size() == 1 && cl->trusted() == trusted, "C14: a clone has the original's variables and flags");
  Value& ci = cl->loadVariable(0);
  verif_assert(ci.type() == Value::type_integer && ci.isNull() == inull && (inull || *ci.integer() == i0), "C14: cloned integer variable has the original's value");
  verif_assert(&ci != &ctx.loadVariable(0) && cl->_storage_pool[0].symbol != ctx._storage_pool[0].symbol, "C14: clone and original share neither variable storage nor symbol objects");
  verif_assert(ci.lvalue(), "C14/C05: a variable inherited by a clone is owned by its slot like any variable (reading it in the clone copies, never consumes it)");
  cl->storeVariable(0, Value(Integer(i1)));
  { Value& oi = ctx.loadVariable(0); verif_assert(oi.isNull() == inull && (inull || *oi.integer() == i0), "C14: a store in the clone does not change the original's variable"); }
  ctx.storeVariable(0, Value(Integer(7)));
  verif_assert(*cl->loadVariable(0).integer() == i1, "C14: a store in the original does not change the clone's variable");
  (void)c0; (void)c1;
  return;
#else
  verif_assert(cl->_storage_pool.size() == 2 && cl->trusted() == trusted, "C14: a clone has the original's variables and flags");
  Value& ci = cl->loadVariable(0); Value& cs = cl->loadVariable(1);
  verif_assert(ci.type() == Value::type_integer && ci.isNull() == inull && (inull || *ci.integer() == i0), "C14: cloned integer variable has the original's value");
  verif_assert(!cs.isNull() && cs.literal()->size() == 1 && (unsigned char)(*cs.literal())[0] == c0, "C14: cloned string variable has the original's value");
  verif_assert(&ci != &ctx.loadVariable(0) && cs.literal() != ctx.loadVariable(1).literal(), "C14: clone and original do not share variable storage");
  verif_assert(cl->_storage_pool[0].symbol != ctx._storage_pool[0].symbol, "C14: clone and original do not share symbol objects");
  /* writes in one are invisible in the other */
  cl->storeVariable(0, Value(Integer(i1)));
  cl->loadVariable(1).literal()->push_back((char)c1);
  Value& oi = ctx.loadVariable(0); Value& os = ctx.loadVariable(1);
  verif_assert(oi.isNull() == inull && (inull || *oi.integer() == i0), "C14: a store in the clone does not change the original's variable");
  verif_assert(os.literal()->size() == 1 && (unsigned char)(*os.literal())[0] == c0, "C14: an in-place change in the clone does not change the original's string");
  ctx.storeVariable(0, Value(Integer(7)));
  verif_assert(*cl->loadVariable(0).integer() == i1, "C14: a store in the original does not change the clone's variable");
#endif
}
extern "C" void c14_execute()
{
  static Context ctx(1, 2);
  ctx._execstack._stack.reserve(3);
  static Statement shared(Statement::STMT_NOP), outer(Statement::STMT_NOP);
  unsigned long lvl0 = in_long(0);
  shared._level = lvl0;
  bool nested = in_bool(0);
  if (nested) ctx.execBegin(&outer);
  verif_known(KF_SHARED_PROGRAM_WRITTEN_ON_EXECUTE, lvl0 != (nested ? 1UL : 0UL));
  const Statement* nx = shared.execute(ctx);
  VX_WITNESS();
  verif_assert(nx == nullptr, "C14: a lone statement has no successor");
  verif_assert(shared._level == lvl0 && shared._next == nullptr && shared._keyword == Statement::STMT_NOP, "C14: executing a statement writes nothing into the shared compiled program");
}

// c14_runtime: the runtime context in which a function body runs takes its function table from the context that makes the
// call (the clone), not from the context that compiled the function (possibly the original the clone was made from).
extern "C" void c14_runtime()
{
  static Context orig(1, 2);
  Context* cl = orig.clone();
  Context* shell = orig.createChildShell(orig);          /* private parsing context of a function declared in the original */
  unsigned char depth = in_uchar(0); verif_assume(depth >= 1);
  Context* rt = shell->createChildRuntime(*cl, depth);   /* the clone calls that function */
  VX_WITNESS();
  verif_assert(cl->_fctm != orig._fctm, "C14: a clone has its own function table");
  verif_assert(rt->_fctm == cl->_fctm, "C14: a function body running for a clone resolves functions in the clone's table, not the original's");
  verif_assert(rt->recursion() == depth, "C08: runtime context carries the requested depth");
}
