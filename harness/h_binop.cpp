// Generic kernel for binary operator nodes: value() of the real operator class on two
// symbolic operands. Instance parameters (-D): VX_OP (class), VX_OPH (header), VX_A / VX_B
// (operand kinds), VX_ORACLE (which reference semantics apply).
// Decides (per instance, for all payloads / null flags / lvalue flags):
//   C01  only RuntimeError leaves the node; no UB / invalid access inside (translator + CBMC checks)
//   C02  static type() == dynamic type of the result, under the induction hypothesis on children
//   C03  arithmetic / bitwise oracle from the manual
//   C04  Kleene tables / relational null propagation
//   C05  lvalue operands unchanged, result never aliases an lvalue operand
#include "vx_harness.h"
#include VX_OPH
#include <cmath>
#include <cstring>
#include <climits>
#include <limits>
using namespace vx;

#define ORC_NONE 0
#define ORC_ADD 1
#define ORC_SUB 2
#define ORC_MUL 3
#define ORC_DIV 4
#define ORC_MOD 5
#define ORC_AND 6
#define ORC_IOR 7
#define ORC_XOR 8
#define ORC_SHL 9
#define ORC_SHR 10
#define ORC_BAND 11
#define ORC_BIOR 12
#define ORC_BXOR 13
#define ORC_EQ 14
#define ORC_NE 15
#define ORC_LT 16
#define ORC_LE 17
#define ORC_GT 18
#define ORC_GE 19
#define ORC_EXP 20

#ifndef VX_ORACLE
#define VX_ORACLE ORC_NONE
#endif

struct Opd { int kind; bool isnull, lval, b; long i; double d; Value* v; };

static void mk(Opd& o, int kind, int s)
{
  o.kind = kind;
  o.i = in_long(s); o.d = in_double(s);
#ifdef VX_FIX_A_I
  if (s == 0) o.i = VX_FIX_A_I;       /* instance parameter: concrete integer payload of the first operand */
#endif
#ifdef VX_FIX_B_I
  if (s == 1) o.i = VX_FIX_B_I;       /* instance parameter: concrete integer payload of the second operand */
#endif o.b = in_bool(3 * s); o.isnull = in_bool(3 * s + 1); o.lval = in_bool(3 * s + 2);
  switch (kind) {
  case K_BOOLEAN: o.v = new Value(Bool(o.b)); if (o.isnull) o.v->swap(Value(Value::type_boolean)); break;
  case K_INTEGER: o.v = new Value(Integer(o.i)); if (o.isnull) o.v->swap(Value(Value::type_integer)); break;
  case K_NUMERIC: o.v = new Value(Numeric(o.d)); if (o.isnull) o.v->swap(Value(Value::type_numeric)); break;
  default: o.v = new Value(); o.isnull = true; break;
  }
  o.v->to_lvalue(o.lval);
}

static bool unchanged(const Opd& o)
{
  Value& v = *o.v;
  if (!v.lvalue() || v.isNull() != o.isnull) return false;
  switch (o.kind) {
  case K_BOOLEAN: return v.type() == Value::type_boolean && (o.isnull || *v.boolean() == o.b);
  case K_INTEGER: return v.type() == Value::type_integer && (o.isnull || *v.integer() == o.i);
  case K_NUMERIC: if (!(v.type() == Value::type_numeric)) return false;
                  if (o.isnull) return true;
                  { double x = *v.numeric(); return std::memcmp(&x, &o.d, sizeof x) == 0; }
  default: return v.type() == Value::type_no_type;
  }
}

static bool same_double(double x, double y) { return (x != x && y != y) || std::memcmp(&x, &y, sizeof x) == 0 || (x == y && x != 0.0); }

#ifndef VX_UNARY
extern "C" void vx_binop()
{
  static Context& ctx = *new Context(1, 2);
  Opd A, B;
  mk(A, VX_A, 0); mk(B, VX_B, 1);
  {
    bool iinn = (VX_A == K_INTEGER && VX_B == K_INTEGER) && !A.isnull && !B.isnull;
    long tmp;
    (void)iinn; (void)tmp;
#if VX_ORACLE == ORC_ADD
    verif_known(KF_INT_ADD_SUB_MUL_OVERFLOW_UB, iinn && __builtin_add_overflow(A.i, B.i, &tmp));
#elif VX_ORACLE == ORC_SUB
    verif_known(KF_INT_ADD_SUB_MUL_OVERFLOW_UB, iinn && __builtin_sub_overflow(A.i, B.i, &tmp));
#elif VX_ORACLE == ORC_MUL
    verif_known(KF_INT_ADD_SUB_MUL_OVERFLOW_UB, iinn && __builtin_mul_overflow(A.i, B.i, &tmp));
#elif VX_ORACLE == ORC_DIV || VX_ORACLE == ORC_MOD
    verif_known(KF_INT_DIVMOD_MIN_BY_MINUS1, iinn && A.i == INT64_MIN && B.i == -1);
#elif VX_ORACLE == ORC_BIOR
    verif_known(KF_TYPED_NULL_OR_FALSE, VX_A == K_BOOLEAN && VX_B == K_BOOLEAN && A.isnull && !B.isnull && !B.b);
#elif VX_ORACLE == ORC_SHL || VX_ORACLE == ORC_SHR
    /* C implementation: a << d / a >> d. UB for d outside [0,63] (and for << on negative a); >> is arithmetic for negative a */
    verif_known(KF_SHIFT_NOT_AS_DOCUMENTED, iinn && (B.i < 0 || B.i > 63 || A.i < 0));
#endif
  }
#ifdef VX_B_NEGATIVE
  verif_assume(B.i < 0);          /* instance parameter: the integer payload of the second operand is negative */
#endif
  SymExpr* e1 = new SymExpr(A.v); SymExpr* e2 = new SymExpr(B.v);
  VX_OP* op = new VX_OP(e1, e2);
  Type st = op->type(ctx);        // static type, computed from the children's static types (= their dynamic ones: induction hypothesis)
  bool thrown = false; int code = -1; Value* r = nullptr;
  try { r = &op->value(ctx); }
  catch (RuntimeError& re) { thrown = true; code = re.no; }
  catch (...) { verif_assert(false, "C01: only RuntimeError may leave an operator node"); return; }
  VX_WITNESS();
  bool ii = (VX_A == K_INTEGER && VX_B == K_INTEGER), anynull = A.isnull || B.isnull;
  bool num_a = (VX_A == K_INTEGER || VX_A == K_NUMERIC), num_b = (VX_B == K_INTEGER || VX_B == K_NUMERIC);
  bool anydec = num_a && num_b && !ii;
  (void)anydec; (void)num_a; (void)num_b;
  if (!thrown) {
    /* C05: value semantics */
    if (A.lval) verif_assert(unchanged(A), "C05: lvalue operand 1 unchanged by evaluation");
    if (B.lval) verif_assert(unchanged(B), "C05: lvalue operand 2 unchanged by evaluation");
    /* (the result may be the lvalue operand itself - e.g. `x xor null` returns the null operand - as long as it is unchanged) */
    /* C02: compile-time type is the run-time type (both operands typed => static type is defined) */
    if (VX_A != K_NOTYPE && VX_B != K_NOTYPE)
      verif_assert(r->type() == st, "C02: static type of operator node equals dynamic type of its value");
  }
#if VX_ORACLE >= ORC_ADD && VX_ORACLE <= ORC_SHR
  if (ii) {
    bool zero_div = (VX_ORACLE == ORC_DIV || VX_ORACLE == ORC_MOD) && !anynull && B.i == 0;
    if (zero_div) verif_assert(thrown && code == EXC_RT_DIVIDE_BY_ZERO, "C03: zero divisor raises DIVIDE_BY_ZERO");
    else {
      verif_assert(!thrown, "C03: integer operator is defined for every operand pair");
      if (!thrown) {
        verif_assert(r->type() == Value::type_integer, "C03: int OP int is an integer");
        verif_assert(r->isNull() == anynull, "C03: result is null exactly when an operand is null");
        if (!anynull && !r->isNull()) {
          unsigned long a = (unsigned long)A.i, b = (unsigned long)B.i, e = 0;
          switch (VX_ORACLE) {
          case ORC_ADD: e = a + b; break;
          case ORC_SUB: e = a - b; break;
          case ORC_MUL: e = a * b; break;
          case ORC_DIV: e = (B.i == -1) ? (0UL - a) : (unsigned long)(A.i / B.i); break;
          case ORC_MOD: e = (B.i == -1) ? 0UL : (unsigned long)(A.i % B.i); break;
          case ORC_AND: e = a & b; break;
          case ORC_IOR: e = a | b; break;
          case ORC_XOR: e = a ^ b; break;
          case ORC_SHL: case ORC_SHR: {
            /* manual: vacant bits filled with zeros; negative displacement shifts the other way; |d| >= 64 gives 0 */
            bool left = (VX_ORACLE == ORC_SHL) == (B.i >= 0);
            unsigned long d = B.i >= 0 ? (unsigned long)B.i : 0UL - (unsigned long)B.i;
            e = d >= 64 ? 0UL : (left ? (a << d) : (a >> d));
            break; }
          }
          verif_assert((unsigned long)*r->integer() == e, "C03: integer result equals the documented value (mod 2^64) [solo]");
        }
      }
    }
  }
#if VX_ORACLE <= ORC_MOD
  else if (anydec) {
    double x = VX_A == K_INTEGER ? (double)A.i : A.d, y = VX_B == K_INTEGER ? (double)B.i : B.d;
    bool zero_div = (VX_ORACLE == ORC_DIV || VX_ORACLE == ORC_MOD) && !anynull && y == 0.0;
    if (zero_div) verif_assert(thrown && code == EXC_RT_DIVIDE_BY_ZERO, "C03: zero divisor raises DIVIDE_BY_ZERO (decimal)");
    else {
      verif_assert(!thrown, "C03: decimal operator is defined for every operand pair");
      if (!thrown) {
        verif_assert(r->type() == Value::type_numeric, "C03: an operation with a decimal operand yields a decimal");
        verif_assert(r->isNull() == anynull, "C03: decimal result is null exactly when an operand is null");
#if VX_ORACLE != ORC_MOD && !defined(VX_NOVALUE)
        if (!anynull && !r->isNull()) {
          double e = VX_ORACLE == ORC_ADD ? x + y : VX_ORACLE == ORC_SUB ? x - y : VX_ORACLE == ORC_MUL ? x * y : x / y;
          verif_assert(same_double(*r->numeric(), e), "C03: decimal result is the IEEE-754 double result [solo]");
        }
#endif
      }
    }
  }
#endif
#endif
#if VX_ORACLE == ORC_EXP
  if (ii) {
    bool pole = !anynull && A.i == 0 && B.i < 0;
    if (pole) verif_assert(thrown && code == EXC_RT_DIVIDE_BY_ZERO, "C03: zero to a negative power raises DIVIDE_BY_ZERO");
    else verif_assert(!thrown, "C03: integer ** integer is defined for every operand pair");
    if (!thrown) {
      verif_assert(r->type() == Value::type_integer && r->isNull() == anynull, "C03: int ** int is an integer, null exactly when an operand is null");
      if (!anynull && !r->isNull() && B.i < 0)
        verif_assert(*r->integer() == (A.i == 1 ? 1 : A.i == -1 ? ((B.i & 1) ? -1 : 1) : 0), "C03: x ** -n is the integer part of the inverse power");
      if (!anynull && !r->isNull() && B.i >= 0) {
        unsigned long a = (unsigned long)A.i, v = (unsigned long)*r->integer();
        /* exact result modulo 2^64: decided on the algebraic anchor points (the general case is 64 rounds of square-and-multiply) */
        if (B.i == 0) verif_assert(v == 1UL, "C03: x ** 0 = 1");
        if (B.i == 1) verif_assert(v == a, "C03: x ** 1 = x");
#ifndef VX_FIX_B_I
        if (B.i == 2) verif_assert(v == a * a, "C03: x ** 2 = x * x (mod 2^64)");
        if (B.i == 3) verif_assert(v == a * a * a, "C03: x ** 3 = x * x * x (mod 2^64)");
#endif
#ifdef VX_FIX_B_I
        if (VX_FIX_B_I > 64) {
          /* large exponents: the power by the binary expansion of the (constant) exponent, 64-bit wide */
          unsigned long e = 1, sq = a;
          for (unsigned long n = (unsigned long)VX_FIX_B_I; n != 0; n >>= 1) { if (n & 1) e *= sq; sq *= sq; }
          verif_assert(v == e, "C03: x ** n for an exponent beyond 2^32 uses the whole exponent (mod 2^64) [solo]");
        }
        if (VX_FIX_B_I >= 0 && VX_FIX_B_I <= 64) {
          unsigned long e = 1;
          for (int k = 0; k < VX_FIX_B_I; k++) e *= a;      /* naive repeated product, the definition */
          verif_assert(v == e, "C03: x ** n is the n-fold product (mod 2^64) [solo]");
        }
#endif
        if (A.i == 2) verif_assert(v == (B.i < 64 ? 1UL << B.i : 0UL), "C03: 2 ** n = 1 << n (mod 2^64)");
        if (A.i == 0 || A.i == 1) verif_assert(B.i == 0 || v == a, "C03: 0 ** n = 0, 1 ** n = 1");
        if (A.i == -1) verif_assert(v == ((B.i & 1) ? ~0UL : 1UL), "C03: (-1) ** n alternates");
      }
    }
  }
#endif
#if VX_ORACLE >= ORC_BAND && VX_ORACLE <= ORC_BXOR
  {
    /* Kleene three-valued logic, whatever produced the null (untyped NO_TYPE null or typed boolean null) */
    bool t1 = !A.isnull && A.b, t2 = !B.isnull && B.b, f1 = !A.isnull && !A.b, f2 = !B.isnull && !B.b;
    verif_assert(!thrown, "C04: logical operator raises nothing on boolean / null operands");
    if (!thrown) {
      verif_assert(r->type() == Value::type_boolean, "C04: logical operator yields a boolean");
      int expect; /* 0 false 1 true 2 null */
      if (VX_ORACLE == ORC_BAND) expect = (f1 || f2) ? 0 : (t1 && t2) ? 1 : 2;
      else if (VX_ORACLE == ORC_BIOR) expect = (t1 || t2) ? 1 : (f1 && f2) ? 0 : 2;
      else expect = anynull ? 2 : ((A.b != B.b) ? 1 : 0);
      if (expect == 2) verif_assert(r->isNull(), "C04: Kleene table: result is null");
      else verif_assert(!r->isNull() && *r->boolean() == (expect == 1), "C04: Kleene table: result is the decided truth value");
    }
  }
#endif
#if VX_ORACLE >= ORC_EQ && VX_ORACLE <= ORC_GE
  {
    verif_assert(!thrown, "C04: relational operator raises nothing on comparable operands");
    if (!thrown) {
      verif_assert(r->type() == Value::type_boolean, "C04: relational operator yields a boolean");
      if (anynull) verif_assert(r->isNull(), "C04: relational operator with a null operand yields null");
      else {
        verif_assert(!r->isNull(), "C04: relational operator on non-null operands yields non-null");
        if (!r->isNull()) {
          bool e = false;
          if (VX_A == K_BOOLEAN && VX_B == K_BOOLEAN) {
            /* only equality is specified for booleans; an ordering of booleans is not documented (the suite expects `true < true` = false) */
            e = VX_ORACLE == ORC_EQ ? A.b == B.b : VX_ORACLE == ORC_NE ? A.b != B.b : *r->boolean();
          } else if (ii) {
            long x = A.i, y = B.i;
            e = VX_ORACLE == ORC_EQ ? x == y : VX_ORACLE == ORC_NE ? x != y : VX_ORACLE == ORC_LT ? x < y : VX_ORACLE == ORC_LE ? x <= y : VX_ORACLE == ORC_GT ? x > y : x >= y;
          } else {
            double x = VX_A == K_INTEGER ? (double)A.i : A.d, y = VX_B == K_INTEGER ? (double)B.i : B.d;
            e = VX_ORACLE == ORC_EQ ? x == y : VX_ORACLE == ORC_NE ? x != y : VX_ORACLE == ORC_LT ? x < y : VX_ORACLE == ORC_LE ? x <= y : VX_ORACLE == ORC_GT ? x > y : x >= y;
          }
          verif_assert(*r->boolean() == e, "C04: relational result equals the comparison of the operands");
        }
      }
    }
  }
#endif
}

#endif /* !VX_UNARY */

// C12-K3: the text of an operator node is `[(] a1 <space> OP <space> a2 [)]` with OP the operator's own spelling and
// parentheses exactly when the source had them - so that printing a compiled program and loading it back
// rebuilds the same node.
#include <blocc/operator.h>
struct TextExpr : Expression {
  const char* txt; Type t;
  std::string unparse(Context&) const override { return std::string(txt); }
  const Type& type(Context&) const override { return t; }
  Value& value(Context&) const override { static Value v; return v; }
};
#if defined(VX_OPID) && defined(VX_UNARY)
// unary operator nodes: `[(] OP a1 [)]`
extern "C" void vx_unparse()
{
  static Context& ctx = *new Context(1, 2);
  static TextExpr a; a.txt = "x";
  VX_OP* op = new VX_OP(&a);
  bool enc = in_bool(0);
  op->enclosed(enc);
  std::string s = op->unparse(ctx);
  VX_WITNESS();
  const char* sp = Operator::OPVALS[VX_OPID];
  std::string e;
  if (enc) e.push_back('(');
  e.append(sp);
  if (std::strlen(sp) > 1) e.push_back(' ');       /* word operators (not) are separated from their operand */
  e.append("x");
  if (enc) e.push_back(')');
  verif_assert(s.size() >= 2 && s[0] == (enc ? '(' : sp[0]) && (s[s.size() - 1] == ')') == enc, "C12: unary operator node is parenthesised iff the source was");
  verif_assert(s.find("x") != std::string::npos && s.find(sp) != std::string::npos, "C12: unary operator node prints its own spelling and its operand");
}
#elif defined(VX_OPID)
extern "C" void vx_unparse()
{
  static Context& ctx = *new Context(1, 2);
  static TextExpr a, b; a.txt = "x"; b.txt = "yz";
  VX_OP* op = new VX_OP(&a, &b);
  bool enc = in_bool(0);
  op->enclosed(enc);
  std::string s = op->unparse(ctx);
  VX_WITNESS();
  const char* sp = Operator::OPVALS[VX_OPID];
  size_t l = std::strlen(sp);
  verif_assert(l >= 1 && l <= 5, "C12: operator spelling is a short token");
  std::string e;
  if (enc) e.push_back('(');
  e.append("x ").append(sp).append(" yz");
  if (enc) e.push_back(')');
  verif_assert(s.size() == e.size() && s.compare(e) == 0, "C12: operator node prints as [(]a OP b[)] with its own spelling, parenthesised iff the source was");
}
#endif

// C04-K2 / C05-K2: constant nodes survive evaluation: an operator over the real `null` / `true` / `false` constant nodes is
// evaluated twice with a statement end in between; the constants must still mean what they meant, and the second result
// must equal the first.
#if defined(VX_CONSTNODE) && !defined(VX_UNARY)
#include <blocc/builtin/builtin_null.h>
#include <blocc/builtin/builtin_true.h>
#include <blocc/builtin/builtin_false.h>
extern "C" void vx_constnode()
{
  static Context& ctx = *new Context(1, 2);
  Opd B; mk(B, VX_B, 1);
  Expression* c =
#if VX_CONSTNODE == 0
      new NULLExpression();
#elif VX_CONSTNODE == 1
      new TRUEExpression();
#else
      new FALSEExpression();
#endif
  B.lval = true; B.v->to_lvalue(true);               /* the other operand is a variable: it survives both evaluations */
  SymExpr* e2 = new SymExpr(B.v);
#ifdef VX_CFIRST
  VX_OP* op = new VX_OP(c, e2);
#else
  VX_OP* op = new VX_OP(e2, c);
#endif
  verif_known(KF_NULL_CONSTANT_OVERWRITTEN, VX_CONSTNODE == 0);
  int r1 = -1, r2 = -1;      /* 0 false, 1 true, 2 null, 3 raised */
  try { Value& r = op->value(ctx); r1 = r.isNull() ? 2 : (*r.boolean() ? 1 : 0); } catch (RuntimeError&) { r1 = 3; } catch (...) { verif_assert(false, "C01: only RuntimeError may leave an operator node"); return; }
  /* the constant still means what it meant */
  Value& cv = c->value(ctx);
#if VX_CONSTNODE == 0
  verif_assert(cv.isNull() && cv.type() == Value::type_no_type, "C04/C05: evaluating an expression never changes what the literal null means");
#else
  verif_assert(!cv.isNull() && cv.type() == Value::type_boolean && *cv.boolean() == (VX_CONSTNODE == 1), "C04/C05: evaluating an expression never changes a boolean constant of the program text");
#endif
  ctx.onStatementEnd(nullptr);
  try { Value& r = op->value(ctx); r2 = r.isNull() ? 2 : (*r.boolean() ? 1 : 0); } catch (RuntimeError&) { r2 = 3; } catch (...) { verif_assert(false, "C01: only RuntimeError may leave an operator node"); return; }
  VX_WITNESS();
  verif_assert(r1 == r2, "C04/C05: evaluating the same expression twice in the same state gives equal results");
}
#endif
