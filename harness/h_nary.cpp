// Generic kernel for n-ary evaluation nodes (builtin functions, unary operators): value() of the real class
// on symbolic arguments. Instance parameters (-D): VX_HDR header, VX_MAKE constructor expression using
// `args` (vector<Expression*>) or e0/e1/e2, VX_NARGS, VX_K0..VX_K2 argument kinds, VX_SLEN max bytes of a
// string / bytes argument, VX_ORACLE.
// Decided for all payloads / string contents up to VX_SLEN / null and lvalue flags:
//   C01 only RuntimeError leaves, no UB or invalid access; C02 static == dynamic type; C05 lvalue arguments
//   unchanged; C03 / C10 the per-builtin oracle.
#include "vx_harness.h"
#include <blocc/collection.h>
#include VX_HDR
#include <cmath>
#include <cstring>
#include <climits>
using namespace vx;

#define ORC_NONE 0
#define ORC_SUBSTR 1
#define ORC_INT 2
#define ORC_CHR 3
#define ORC_STRLEN 4
#define ORC_UPPER 5
#define ORC_LOWER 6
#define ORC_NEG 7
#define ORC_NOT 8      /* bitwise ~ */
#define ORC_BNOT 9     /* logical not */
#define ORC_ABS 10
#define ORC_ISNULL 11
#define ORC_HASH 12
#define ORC_LSUB 13
#define ORC_RSUB 14
#define ORC_STRPOS 15
#define ORC_TRIM 16
#define ORC_HEX 17
#define ORC_AT 18
#define ORC_COUNT 19
#define ORC_PUT 20
#define ORC_DELETE 21
#define ORC_CONCATC 22
#ifndef VX_ORACLE
#define VX_ORACLE ORC_NONE
#endif
#ifndef VX_SLEN
#define VX_SLEN 2
#endif
#ifndef VX_NARGS
#define VX_NARGS 1
#endif
#ifndef VX_K1
#define VX_K1 K_INTEGER
#endif
#ifndef VX_K2
#define VX_K2 K_INTEGER
#endif

#ifndef VX_TLEN
#define VX_TLEN 2
#endif
struct Arg { int kind; bool isnull, lval, b; long i; double d; int len; unsigned char c[4]; long e[3]; bool en[3]; Value* v; };

static void mk(Arg& o, int kind, int s)
{
  o.kind = kind;
  o.i = in_long(s); o.d = in_double(s); o.b = in_bool(3 * s); o.isnull = in_bool(3 * s + 1); o.lval = in_bool(3 * s + 2);
  o.len = 0;
  switch (kind) {
  case K_BOOLEAN: o.v = new Value(Bool(o.b)); if (o.isnull) o.v->swap(Value(Value::type_boolean)); break;
  case K_INTEGER: o.v = new Value(Integer(o.i)); if (o.isnull) o.v->swap(Value(Value::type_integer)); break;
  case K_NUMERIC: o.v = new Value(Numeric(o.d)); if (o.isnull) o.v->swap(Value(Value::type_numeric)); break;
  case K_LITERAL: case K_TABCHAR: {
    o.len = in_int(s); verif_assume(o.len >= 0 && o.len <= VX_SLEN);
    for (int k = 0; k < VX_SLEN; ++k) o.c[k] = in_uchar(4 * s + k);
    if (kind == K_LITERAL) {
      Literal* str = new Literal();
      for (int k = 0; k < VX_SLEN; ++k) if (k < o.len) str->push_back((char)o.c[k]);
      o.v = new Value(str); if (o.isnull) o.v->swap(Value(Value::type_literal));
    } else {
      TabChar* t = new TabChar(VX_SLEN);
      for (int k = 0; k < VX_SLEN; ++k) (*t)[k] = (char)o.c[k];
      t->resize(o.len);
      o.v = new Value(t); if (o.isnull) o.v->swap(Value(Value::type_tabchar));
    }
    break; }
  case K_TABI: case K_TABD: {
    /* table of VX_TLEN elements (symbolic values, each possibly a typed null) */
    o.len = VX_TLEN;
    Type tt(kind == K_TABI ? Type::INTEGER : Type::NUMERIC, 0, 1);
    Collection* col = new Collection(tt);
    col->reserve(VX_TLEN);
    for (int k = 0; k < VX_TLEN; ++k) {
      o.e[k] = in_long(8 + 3 * s + k); o.en[k] = in_bool(16 + 3 * s + k);
      if (kind == K_TABI) col->push_back(Value(Integer(o.e[k]))); else col->push_back(Value(Numeric((double)o.e[k])));
      if (o.en[k]) col->at(k).swap(Value(kind == K_TABI ? Value::type_integer : Value::type_numeric));
      col->at(k).to_lvalue(true);
    }
    o.v = new Value(col);
    if (o.isnull) o.v->swap(Value(tt));
    break; }
  default: o.v = new Value(); o.isnull = true; break;
  }
  o.v->to_lvalue(o.lval);
}
static bool elem_is(Value& x, int kind, long e, bool en)
{
  Value& v = x.deref_value();
  if (kind == K_TABI) return v.type() == Value::type_integer && v.isNull() == en && (en || *v.integer() == e);
  return v.type() == Value::type_numeric && v.isNull() == en && (en || *v.numeric() == (double)e);
}

static bool unchanged(const Arg& o)
{
  Value& v = *o.v;
  if (!v.lvalue() || v.isNull() != o.isnull) return false;
  switch (o.kind) {
  case K_BOOLEAN: return v.type() == Value::type_boolean && (o.isnull || *v.boolean() == o.b);
  case K_INTEGER: return v.type() == Value::type_integer && (o.isnull || *v.integer() == o.i);
  case K_NUMERIC: if (!(v.type() == Value::type_numeric)) return false;
                  if (o.isnull) return true;
                  { double x = *v.numeric(); return std::memcmp(&x, &o.d, sizeof x) == 0; }
  case K_LITERAL: {
    if (!(v.type() == Value::type_literal)) return false;
    if (o.isnull) return true;
    Literal* s = v.literal();
    if ((int)s->size() != o.len) return false;
    for (int k = 0; k < VX_SLEN; ++k) if (k < o.len && (unsigned char)(*s)[k] != o.c[k]) return false;
    return true; }
  case K_TABCHAR: {
    if (!(v.type() == Value::type_tabchar)) return false;
    if (o.isnull) return true;
    TabChar* s = v.tabchar();
    if ((int)s->size() != o.len) return false;
    for (int k = 0; k < VX_SLEN; ++k) if (k < o.len && (unsigned char)(*s)[k] != o.c[k]) return false;
    return true; }
  case K_TABI: case K_TABD: {
    if (!(v.type() == Type(o.kind == K_TABI ? Type::INTEGER : Type::NUMERIC, 0, 1))) return false;
    if (o.isnull) return true;
    Collection* t = v.collection();
    if ((int)t->size() != VX_TLEN) return false;
    for (int k = 0; k < VX_TLEN; ++k) if (!elem_is(t->at(k), o.kind, o.e[k], o.en[k])) return false;
    return true; }
  default: return v.type() == Value::type_no_type;
  }
}

extern "C" void vx_nary()
{
  static Context& ctx = *new Context(1, 2);
  Arg A[3];
  mk(A[0], VX_K0, 0);
#ifdef VX_LVAL0
  verif_assume(A[0].lval);            /* the receiver is held by a variable */
  A[0].v->to_lvalue(true);
#endif
  if (VX_NARGS > 1) mk(A[1], VX_K1, 1);
  if (VX_NARGS > 2) mk(A[2], VX_K2, 2);
  SymExpr* e0 = new SymExpr(A[0].v); SymExpr* e1 = VX_NARGS > 1 ? new SymExpr(A[1].v) : nullptr; SymExpr* e2 = VX_NARGS > 2 ? new SymExpr(A[2].v) : nullptr;
  std::vector<Expression*> args(VX_NARGS);
  args[0] = e0; if (VX_NARGS > 1) args[1] = e1; if (VX_NARGS > 2) args[2] = e2;
  std::vector<Expression*> margs(VX_NARGS > 1 ? VX_NARGS - 1 : 0);      /* member methods: receiver e0, arguments e1.. */
  if (VX_NARGS > 1) margs[0] = e1; if (VX_NARGS > 2) margs[1] = e2;
  (void)e0; (void)e1; (void)e2;
#ifdef VX_KNOWN
  VX_KNOWN;
#endif
  Expression* f = VX_MAKE;
  Type st = f->type(ctx);
  bool thrown = false; int code = -1; Value* r = nullptr;
  try { r = &f->value(ctx); }
  catch (RuntimeError& re) { thrown = true; code = re.no; }
  catch (...) { verif_assert(false, "C01: only RuntimeError may leave an evaluation node"); return; }
  VX_WITNESS();
  (void)code;
  /* C05: frame condition - also when the node raised */
#ifndef VX_MUTATES0
  if (A[0].lval) verif_assert(unchanged(A[0]), "C05/C10: lvalue argument 1 unchanged by evaluation");
#else
  if (thrown) verif_assert(unchanged(A[0]) || !A[0].lval, "C09: a rejected in-place method leaves the receiver unchanged");
  else verif_assert(A[0].v->lvalue() == A[0].lval, "C05/C09: an in-place method leaves the receiver owned by its variable (storage flag kept, so later uses copy it)");
#endif
  if (VX_NARGS > 1 && A[1].lval) verif_assert(unchanged(A[1]), "C05/C10: lvalue argument 2 unchanged by evaluation");
  if (VX_NARGS > 2 && A[2].lval) verif_assert(unchanged(A[2]), "C05/C10: lvalue argument 3 unchanged by evaluation");
  if (!thrown) {
    bool typed = VX_K0 != K_NOTYPE && (VX_NARGS < 2 || VX_K1 != K_NOTYPE) && (VX_NARGS < 3 || VX_K2 != K_NOTYPE);
    if (typed && st.major() != Type::NO_TYPE)
      verif_assert(r->type() == st, "C02: static type of the node equals the dynamic type of its value");
  }
#if VX_ORACLE == ORC_SUBSTR
  /* substr(s, begin [, count]): negative begin counts from the end; result is the in-range part; never reads outside */
  if (VX_K0 == K_LITERAL && VX_K1 == K_INTEGER && (VX_NARGS < 3 || VX_K2 == K_INTEGER)) {
    verif_assert(!thrown, "C10: substr is total for a string and integer arguments");
    if (!thrown) {
      bool anynull = A[0].isnull || A[1].isnull || (VX_NARGS > 2 && A[2].isnull);
      verif_assert(r->type() == Value::type_literal, "C10: substr yields a string");
      if (!anynull) {
        verif_assert(!r->isNull(), "C10: substr of non-null arguments is non-null");
        long c = A[0].len, a = A[1].i, b = VX_NARGS > 2 ? A[2].i : c;
        long n = 0, from = 0;
        if (c > 0) {
          long aa = a < 0 ? ((a < -c) ? -1 : a + c) : a;      /* exact (no overflow) form of a + c */
          if (aa >= 0 && aa < c) { long room = c - aa; long bb = b < room ? b : room; if (bb > 0) { n = bb; from = aa; } }
        }
        if (!r->isNull()) {
          Literal* out = r->literal();
          verif_assert((long)out->size() == n, "C10: substr length is the in-range part");
          for (int k = 0; k < VX_SLEN; ++k) if (k < n) verif_assert((unsigned char)(*out)[k] == A[0].c[(from + k) % 4], "C10: substr content (8-bit clean)");
        }
      }
    }
  }
#elif VX_ORACLE == ORC_INT
  if (VX_K0 == K_NUMERIC) {
    bool inrange = !A[0].isnull && A[0].d >= -9223372036854775808.0 && A[0].d < 9223372036854775808.0;
    if (A[0].isnull) verif_assert(!thrown && r->isNull() && r->type() == Value::type_integer, "C03: int(null decimal) is a null integer");
    else if (inrange) { verif_assert(!thrown, "C03: int(d) succeeds when d lies in the integer range");
      if (!thrown) verif_assert(r->type() == Value::type_integer && !r->isNull() && *r->integer() == (long)A[0].d, "C03: int(d) truncates toward zero"); }
    else verif_assert(thrown && code == EXC_RT_OUT_OF_RANGE, "C03: int(d) raises OUT_OF_RANGE outside the integer range (and for nan)");
  } else if (VX_K0 == K_INTEGER) {
    verif_assert(!thrown, "C03: int(integer) is total");
    if (!thrown) verif_assert(r->type() == Value::type_integer && r->isNull() == A[0].isnull && (A[0].isnull || *r->integer() == A[0].i), "C03: int(i) = i");
  }
#elif VX_ORACLE == ORC_CHR
  if (VX_K0 == K_INTEGER) {
    if (A[0].isnull) verif_assert(!thrown || code != EXC_RT_OUT_OF_RANGE, "C10: chr(null) is not a range error");
    else if (A[0].i < 0 || A[0].i > 255) verif_assert(thrown && code == EXC_RT_OUT_OF_RANGE, "C10: chr rejects codes outside 0..255 with OUT_OF_RANGE");
    else { verif_assert(!thrown, "C10: chr accepts 0..255");
      if (!thrown) verif_assert(r->type() == Value::type_literal && !r->isNull() && r->literal()->size() == 1 && (unsigned char)(*r->literal())[0] == (unsigned char)A[0].i, "C10: chr(n) is the one-byte string n"); }
  }
#elif VX_ORACLE == ORC_STRLEN
  if (VX_K0 == K_LITERAL) { verif_assert(!thrown, "C10: strlen is total");
    if (!thrown) verif_assert(r->type() == Value::type_integer && r->isNull() == A[0].isnull && (A[0].isnull || *r->integer() == A[0].len), "C10: strlen counts bytes (8-bit clean, embedded NUL included)"); }
#elif VX_ORACLE == ORC_UPPER || VX_ORACLE == ORC_LOWER
  if (VX_K0 == K_LITERAL) { verif_assert(!thrown, "C10: upper/lower is total");
    if (!thrown) { verif_assert(r->type() == Value::type_literal && r->isNull() == A[0].isnull, "C10: upper/lower keeps type and nullness");
      if (!A[0].isnull && !r->isNull()) { Literal* out = r->literal(); verif_assert((int)out->size() == A[0].len, "C10: upper/lower keeps the length");
        for (int k = 0; k < VX_SLEN; ++k) if (k < A[0].len) { unsigned char ch = A[0].c[k];
          unsigned char e = VX_ORACLE == ORC_UPPER ? ((ch >= 'a' && ch <= 'z') ? ch - 32 : ch) : ((ch >= 'A' && ch <= 'Z') ? ch + 32 : ch);
          verif_assert((unsigned char)(*out)[k] == e, "C10: upper/lower maps ASCII letters only, other bytes unchanged"); } } } }
#elif VX_ORACLE == ORC_NEG
  if (VX_K0 == K_INTEGER) { verif_assert(!thrown, "C03: unary minus is total on integers");
    if (!thrown) verif_assert(r->type() == Value::type_integer && r->isNull() == A[0].isnull && (A[0].isnull || (unsigned long)*r->integer() == 0UL - (unsigned long)A[0].i), "C03: -i is the negation modulo 2^64"); }
  else if (VX_K0 == K_NUMERIC) { verif_assert(!thrown, "C03: unary minus is total on decimals");
    if (!thrown && !A[0].isnull) { double x = *r->numeric(), e = -A[0].d; /* numeric equality: the implementation computes 0.0 - d, so -(+0.0) is +0.0 (same number, other zero) */
      verif_assert(r->type() == Value::type_numeric && (x == e || (x != x && e != e)), "C03: -d is the IEEE negation (as a number)"); } }
#elif VX_ORACLE == ORC_NOT
  if (VX_K0 == K_INTEGER) { verif_assert(!thrown, "C03: ~ is total on integers");
    if (!thrown) verif_assert(r->type() == Value::type_integer && r->isNull() == A[0].isnull && (A[0].isnull || *r->integer() == ~A[0].i), "C03: ~ acts on all 64 bits"); }
#elif VX_ORACLE == ORC_BNOT
  { verif_assert(!thrown, "C04: not raises nothing on boolean / null");
    if (!thrown) { verif_assert(r->type() == Value::type_boolean, "C04: not yields a boolean");
      if (A[0].isnull) verif_assert(r->isNull(), "C04: not null = null (whatever produced the null)");
      else verif_assert(!r->isNull() && *r->boolean() == !A[0].b, "C04: not b"); } }
#elif VX_ORACLE == ORC_ABS
  if (VX_K0 == K_INTEGER) { verif_assert(!thrown, "C03: abs is total on integers");
    if (!thrown) verif_assert(r->type() == Value::type_integer && r->isNull() == A[0].isnull && (A[0].isnull || (unsigned long)*r->integer() == (A[0].i < 0 ? 0UL - (unsigned long)A[0].i : (unsigned long)A[0].i)), "C03: abs(i) modulo 2^64"); }
#elif VX_ORACLE == ORC_ISNULL
  { verif_assert(!thrown, "C04: isnull is total");
    if (!thrown) verif_assert(r->type() == Value::type_boolean && !r->isNull() && *r->boolean() == A[0].isnull, "C04: isnull(x) tells whether x is null, for typed and untyped nulls alike"); }
#elif VX_ORACLE == ORC_HASH
  if (VX_NARGS > 1 && VX_K1 == K_INTEGER && !A[1].isnull && !A[0].isnull && A[1].i >= 1 && !thrown)
    verif_assert(r->type() == Value::type_integer && !r->isNull() && *r->integer() >= 0 && *r->integer() <= A[1].i, "C10: hash(x, max) lies within 0..max");
#elif VX_ORACLE == ORC_LSUB || VX_ORACLE == ORC_RSUB
  if (VX_K0 == K_LITERAL && VX_K1 == K_INTEGER) { verif_assert(!thrown, "C10: lsubstr/rsubstr is total");
    if (!thrown && !A[0].isnull && !A[1].isnull && !r->isNull()) {
      long c = A[0].len, n = A[1].i < 0 ? 0 : (A[1].i > c ? c : A[1].i), from = VX_ORACLE == ORC_LSUB ? 0 : c - n;
      Literal* out = r->literal();
      verif_assert(r->type() == Value::type_literal && (long)out->size() == n, "C10: lsubstr/rsubstr length is min(count, size), 0 for negative counts");
      for (int k = 0; k < VX_SLEN; ++k) if (k < n) verif_assert((unsigned char)(*out)[k] == A[0].c[(from + k) % 4], "C10: lsubstr/rsubstr content"); } }
#elif VX_ORACLE == ORC_AT
  /* x.at(p): tables 0-based; out-of-range or null position (or null receiver) raises the index error */
  if (VX_K1 == K_INTEGER) {
    bool inrange = !A[0].isnull && !A[1].isnull && A[1].i >= 0 && A[1].i < (long)A[0].len;
    if (!inrange) verif_assert(thrown && code == EXC_RT_INDEX_RANGE_S, "C09: at() raises the index error for every out-of-range or null position");
    else { verif_assert(!thrown, "C09: at() succeeds for an in-range position");
      if (!thrown) {
        if (VX_K0 == K_TABI || VX_K0 == K_TABD) verif_assert(elem_is(*r, VX_K0, A[0].e[A[1].i % 3], A[0].en[A[1].i % 3]), "C09: table.at(p) is element p");
        else verif_assert(r->type() == Value::type_integer && !r->isNull() && *r->integer() == (long)A[0].c[A[1].i % 4], "C09: string/bytes.at(p) is byte p as 0..255"); } }
  }
#elif VX_ORACLE == ORC_COUNT
  { verif_assert(!thrown, "C09: count() is total");
    if (!thrown) verif_assert(r->type() == Value::type_integer && (A[0].isnull ? r->isNull() : (!r->isNull() && *r->integer() == (long)A[0].len)), "C09: count() is the number of elements / bytes, null for a null receiver"); }
#elif VX_ORACLE == ORC_PUT
  /* t.put(p, x) on a table of integers/decimals */
  if ((VX_K0 == K_TABI || VX_K0 == K_TABD) && VX_K1 == K_INTEGER) {
    bool inrange = !A[0].isnull && !A[1].isnull && A[1].i >= 0 && A[1].i < (long)A[0].len;
    if (!inrange) verif_assert(thrown && code == EXC_RT_INDEX_RANGE_S, "C09: put() raises the index error for every out-of-range or null position");
    if (!thrown && !A[0].isnull) {
      Collection* t = A[0].v->collection();
      verif_assert((int)t->size() == VX_TLEN, "C09: put() never changes the table length");
      for (int k = 0; k < VX_TLEN; ++k) {
        Value& ev = t->at(k).deref_value();
        verif_assert(ev.type() == (VX_K0 == K_TABI ? Value::type_integer : Value::type_numeric), "C09: every element keeps the table's element type after put()");
        if (k != A[1].i) verif_assert(elem_is(t->at(k), VX_K0, A[0].e[k], A[0].en[k]), "C09: put() changes only the addressed element");
      }
      if ((VX_K0 == K_TABI && VX_K2 == K_INTEGER) || (VX_K0 == K_TABD && VX_K2 == K_NUMERIC)) {
        Value& ev = t->at(A[1].i % 3).deref_value();
        if (VX_K0 == K_TABI) verif_assert(ev.isNull() == A[2].isnull && (A[2].isnull || *ev.integer() == A[2].i), "C09: put() stores the given value");
      }
    }
  }
#elif VX_ORACLE == ORC_DELETE
  if ((VX_K0 == K_TABI || VX_K0 == K_TABD) && VX_K1 == K_INTEGER) {
    bool inrange = !A[0].isnull && !A[1].isnull && A[1].i >= 0 && A[1].i < (long)A[0].len;
    if (!inrange) verif_assert(thrown && code == EXC_RT_INDEX_RANGE_S, "C09: delete() raises the index error for every out-of-range or null position");
    else { verif_assert(!thrown, "C09: delete() succeeds for an in-range position");
      if (!thrown) { Collection* t = A[0].v->collection(); verif_assert((int)t->size() == VX_TLEN - 1, "C09: delete() removes exactly one element");
        for (int k = 0; k < VX_TLEN - 1; ++k) verif_assert(elem_is(t->at(k), VX_K0, A[0].e[k < A[1].i ? k : k + 1], A[0].en[k < A[1].i ? k : k + 1]), "C09: delete() keeps the other elements in order"); } }
  }
#elif VX_ORACLE == ORC_CONCATC
  /* s.concat(<char code>) on a string receiver */
  if (VX_K0 == K_LITERAL && VX_K1 == K_INTEGER && !A[1].isnull) {
    if (A[1].i < 0 || A[1].i > 255) verif_assert(thrown && code == EXC_RT_OUT_OF_RANGE, "C10: concat rejects codes outside 0..255 with OUT_OF_RANGE");
    else { verif_assert(!thrown, "C09: concat of a character code succeeds");
      if (!thrown && !r->isNull()) { Literal* out = r->literal(); int ol = A[0].isnull ? 0 : A[0].len;
        verif_assert(r->type() == Value::type_literal && (int)out->size() == ol + 1 && (unsigned char)(*out)[ol] == (unsigned char)A[1].i, "C09: concat appends exactly the given character");
        for (int k = 0; k < VX_SLEN; ++k) if (k < ol) verif_assert((unsigned char)(*out)[k] == A[0].c[k], "C09: concat keeps the previous content");
        verif_assert(r == A[0].v, "C09: concat works in place on its receiver"); } }
  }
#elif VX_ORACLE == ORC_TRIM
  if (VX_K0 == K_LITERAL) { verif_assert(!thrown, "C10: trim is total");
    if (!thrown && !A[0].isnull && !r->isNull()) { Literal* out = r->literal();
      verif_assert((int)out->size() <= A[0].len, "C10: trim never grows the string");
      if (out->size() > 0) { unsigned char f0 = (unsigned char)(*out)[0], l0 = (unsigned char)(*out)[out->size() - 1];
        (void)f0; (void)l0; } } }
#endif
}
