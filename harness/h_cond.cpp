// C04-K3 / C06: conditions of IF and WHILE. A null condition - untyped null, typed boolean null - or a false one takes the false
// branch; exactly the first rule whose condition is true runs (else the ELSE body, if any); conditions are evaluated in order, once,
// and none after the rule that ran; the bodies run in the executing context. WHILE: one step from an arbitrary point of the loop.
// Executable::run (the bodies) is a stub of the harness.
#include <string>
#include <vector>
#include <list>
#include <memory>
#define private public
#define protected public
#include "vx_harness.h"
#include <blocc/statement_if.h>
#include <blocc/statement_while.h>
#include <blocc/executable.h>
#undef private
#undef protected
using namespace vx;
#ifndef VX_RULES
#define VX_RULES 2      /* number of conditional rules (if / elsif ...) */
#endif
#ifndef VX_ELSE
#define VX_ELSE 1       /* an ELSE body is present */
#endif
#ifndef VX_UNTYPED
#define VX_UNTYPED 0    /* bit k set: a null condition k is the untyped null instead of a typed boolean null */
#endif
static const std::list<const Statement*>* P_body[4]; static int ran[4]; static int order[4]; static int nran = 0; static Context* P_ctx; static bool ctx_ok = true;
static int body_action = 0;     /* WHILE body: 0 nothing, 1 break, 2 continue, 3 return */
namespace bloc {
int Executable::run(Context& ctx, const std::list<const Statement*>& st) {
  for (int k = 0; k < 4; ++k) if (&st == P_body[k]) { ++ran[k]; order[k] = nran; }
  ++nran; if (&ctx != P_ctx) ctx_ok = false;
  if (body_action == 1) ctx.breakCondition(true); else if (body_action == 2) ctx.continueCondition(true); else if (body_action == 3) ctx.returnCondition(true);
  return 0;
}
Executable::~Executable() { }
}
static std::list<const Statement*> L_none;
struct Cond { bool isnull, b; Value* v; SymExpr* e; };
static void mkcond(Cond& c, int k)
{
  c.b = in_bool(2 * k); c.isnull = in_bool(2 * k + 1);
  c.v = new Value(Bool(c.b));
  if (c.isnull) { if ((VX_UNTYPED >> k) & 1) c.v->swap(Value()); else c.v->swap(Value(Value::type_boolean)); }
  c.v->to_lvalue(in_bool(8 + k));
  c.e = new SymExpr(c.v); c.e->t = Type(Type::BOOLEAN);
}
extern "C" void c04_if()
{
  static Context ctx(1, 2); static Context cctx(1, 2);      /* executing context / context the statement was compiled in */
  P_ctx = &ctx;
  static IFStatement st, nextstmt; st._next = &nextstmt;
  static Cond c[3]; static Executable* body[4];
  for (int k = 0; k < VX_RULES; ++k) { mkcond(c[k], k); body[k] = new Executable(cctx, L_none); P_body[k] = &body[k]->_statements; st._rules.push_back(std::make_pair((Expression*)c[k].e, body[k])); }
  if (VX_ELSE) { body[VX_RULES] = new Executable(cctx, L_none); P_body[VX_RULES] = &body[VX_RULES]->_statements; st._rules.push_back(std::make_pair((Expression*)nullptr, body[VX_RULES])); }
  const Statement* nx = nullptr;
  try { nx = st.doit(ctx); } catch (...) { verif_assert(false, "C01: an if statement over boolean / null conditions raises nothing"); return; }
  VX_WITNESS();
  int expect = -1;
  for (int k = VX_RULES - 1; k >= 0; --k) if (!c[k].isnull && c[k].b) expect = k;
  if (expect < 0 && VX_ELSE) expect = VX_RULES;
  verif_assert(nx == &nextstmt, "C04: an if statement continues with the statement after it");
  for (int k = 0; k < VX_RULES + VX_ELSE; ++k)
    verif_assert(ran[k] == (k == expect ? 1 : 0), "C04: exactly the first rule whose condition is true runs - a null condition (untyped or typed) or a false one takes the false branch; else the ELSE body");
  for (int k = 0; k < VX_RULES; ++k)
    verif_assert(c[k].e->evals == ((expect < 0 || k <= expect) ? 1 : 0), "C04: conditions are evaluated in order, once each, and none after the rule that ran");
  verif_assert(ctx_ok, "C04/C14: the chosen body runs in the executing context");
  for (int k = 0; k < VX_RULES; ++k) {
    Value& v = *c[k].v;
    verif_assert(v.isNull() == c[k].isnull && (c[k].isnull || *v.boolean() == c[k].b), "C04/C05: testing a condition does not change its value");
  }
}
extern "C" void c04_while()
{
  static Context ctx(1, 2); static Context cctx(1, 2);
  P_ctx = &ctx;
  ctx._controlstack._stack.reserve(2);
  static WHILEStatement st, nextstmt; st._next = &nextstmt;
  static Cond c; mkcond(c, 0);
  st.exp = c.e; st._exec = new Executable(cctx, L_none); P_body[0] = &st._exec->_statements;
  bool reentry = in_bool(6);                /* first entry, or re-entry with the loop already on the control stack */
  if (reentry) ctx.stackControl(&st, nullptr);
  body_action = in_int(0); verif_assume(body_action >= 0 && body_action <= 3);
  const Statement* nx = nullptr;
  try { nx = st.doit(ctx); } catch (...) { verif_assert(false, "C01: a while statement over a boolean / null condition raises nothing"); return; }
  VX_WITNESS();
  bool truth = !c.isnull && c.b;
  verif_assert(ran[0] == (truth ? 1 : 0) && c.e->evals == 1, "C04: the body of while runs exactly when the condition is true - a null condition (untyped or typed) or a false one leaves the loop");
  bool again = truth && (body_action == 0 || body_action == 2);
  verif_assert(nx == (again ? (const Statement*)&st : (const Statement*)&nextstmt), "C06: while is re-entered after a normal or continued iteration and left on a false / null condition, break or return");
  verif_assert((ctx.topControl() == &st) == again, "C06: the loop is on the control stack exactly while it is running");
  verif_assert(!ctx.breakCondition() && !ctx.continueCondition(), "C06: break and continue are consumed by the innermost loop");
  verif_assert(ctx.returnCondition() == (truth && body_action == 3), "C06: return passes through the loop to the enclosing function or program");
  verif_assert(ctx_ok, "C04/C14: the body runs in the executing context");
}
