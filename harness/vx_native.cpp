// native side of the harness primitives: inputs come from the solver's counterexample
#include <cstdio>
#include <cstdlib>
#include <cstring>
#include <map>
#include <string>
static std::map<std::string, unsigned long long> g_in;
static bool g_loaded = false;
static void load() {
  if (g_loaded) return; g_loaded = true;
  const char* p = getenv("VX_INPUTS"); if (!p) return;
  FILE* f = fopen(p, "r"); if (!f) return;
  char k[64]; unsigned long long v;
  while (fscanf(f, "%63s %llu", k, &v) == 2) g_in[k] = v;
  fclose(f);
}
static unsigned long long get(const char* kind, int k) { load(); char b[64]; snprintf(b, sizeof b, "%s%d", kind, k); auto it = g_in.find(b); return it == g_in.end() ? 0ULL : it->second; }
extern "C" {
void verif_assume(bool c) { if (!c) { printf("VX-ASSUME-VIOLATED\n"); fflush(stdout); _Exit(3); } }
void verif_assert(bool c, const char* msg) { if (!c && strncmp(msg, "WITNESS", 7) != 0) { printf("VX-ASSERT-FAILED: %s\n", msg); fflush(stdout); } }
void verif_known(int, bool) {}
long in_long(int k) { return (long)get("long", k); }
int in_int(int k) { return (int)get("int", k); }
bool in_bool(int k) { return get("bool", k) != 0; }
unsigned char in_uchar(int k) { return (unsigned char)get("uchar", k); }
double in_double(int k) { unsigned long long u = get("double", k); double d; memcpy(&d, &u, 8); return d; }
void VX_ENTRY(void);
}
int main() { setvbuf(stdout, 0, _IONBF, 0); VX_ENTRY(); printf("VX-DONE\n"); fflush(stdout); _Exit(0); /* harness statics are not torn down (CBMC does not either) */ }
