// native side of the harness primitives: inputs come from the solver's counterexample
#include <cstdio>
#include <cstdlib>
#include <cstring>
#include <map>
#include <string>
#include <unistd.h>
static std::map<std::string, unsigned long long> g_in;
static bool g_loaded = false;
static void load() {
  if (g_loaded) return; g_loaded = true;
  const char* p = getenv("VX_INPUTS"); if (!p) return;
  FILE* f = fopen(p, "r"); if (!f) return;
  char k[64]; unsigned long long v;
  while (fscanf(f, "%63s %llu", k, &v) == 2) g_in[k] = v;
  fclose(f);
}
static unsigned long long get(const char* kind, int k) { load(); char b[64]; snprintf(b, sizeof b, "%s%d", kind, k); auto it = g_in.find(b); return it == g_in.end() ? 0ULL : it->second; }
extern "C" {
void verif_assume(bool c) { if (!c) { printf("VX-ASSUME-VIOLATED\n"); fflush(stdout); _Exit(3); } }
void verif_assert(bool c, const char* msg) { if (!c && strncmp(msg, "WITNESS", 7) != 0) { printf("VX-ASSERT-FAILED: %s\n", msg); fflush(stdout); } }
void verif_known(int, bool) {}
long in_long(int k) { return (long)get("long", k); }
int in_int(int k) { return (int)get("int", k); }
bool in_bool(int k) { return get("bool", k) != 0; }
unsigned char in_uchar(int k) { return (unsigned char)get("uchar", k); }
double in_double(int k) { unsigned long long u = get("double", k); double d; memcpy(&d, &u, 8); return d; }
void VX_ENTRY(void);
/* observable streams (model/vx_runtime.c has the symbolic counterpart): a fresh sink is a temporary file; what the code under test
 * writes to the process's standard output between vx_io_begin/vx_io_end is captured by redirecting descriptor 1 */
void* vx_io_new(void) { return tmpfile(); }
static int g_saved1 = -1; static FILE* g_cap = nullptr;
void vx_io_begin(void) { fflush(stdout); g_saved1 = dup(1); g_cap = tmpfile(); dup2(fileno(g_cap), 1); }
long vx_io_end(void) { fflush(stdout); long n = (long)lseek(1, 0, SEEK_CUR); dup2(g_saved1, 1); close(g_saved1); return n; }
long vx_io_written(void* f) { fflush((FILE*)f); return (long)lseek(fileno((FILE*)f), 0, SEEK_END); }
/* number text chosen by a harness: natively the value is the number the text denotes and the rendering is the real one */
void vx_set_numtext(void*, long) {}
double vx_num_of_text(void* s) { return strtod((const char*)s, nullptr); }
long vx_io_text(void* f, void* buf, long n) { fflush((FILE*)f); return (long)pread(fileno((FILE*)f), buf, (size_t)n, 0); }
}
int main() { setvbuf(stdout, 0, _IONBF, 0); VX_ENTRY(); printf("VX-DONE\n"); fflush(stdout); _Exit(0); /* harness statics are not torn down (CBMC does not either) */ }
