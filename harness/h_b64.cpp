// C10-K2: b64dec(b64enc(x)) == x on the real base64.cpp, and the encoding is the standard one, for all byte strings of
// VX_LEN bytes (length is the instance parameter so that every buffer size is concrete; the bytes are symbolic, 8-bit).
#include "vx_harness.h"
#include <cstring>
#include <blocc/builtin/base64.h>
using namespace vx;
#ifndef VX_LEN
#define VX_LEN 2
#endif
static const char STD[65] = "ABCDEFGHIJKLMNOPQRSTUVWXYZabcdefghijklmnopqrstuvwxyz0123456789+/";
extern "C" void c10_b64()
{
  unsigned char in[VX_LEN + 1];
  for (int i = 0; i < VX_LEN; ++i) in[i] = in_uchar(i);
  Literal enc;
  b64encode(in, VX_LEN, enc);
  VX_WITNESS();
  verif_assert(enc.size() == (VX_LEN + 2) / 3 * 4, "C10: base64 text has 4 characters per 3 input bytes, padded");
  /* reference encoding of the first group (RFC 4648) */
  unsigned b0 = in[0], b1 = VX_LEN > 1 ? in[1] : 0, b2 = VX_LEN > 2 ? in[2] : 0;
  verif_assert(enc[0] == STD[b0 >> 2], "C10: b64enc is the standard encoding, 8-bit clean (character 1)");
  verif_assert(enc[1] == STD[((b0 & 3) << 4) | (b1 >> 4)], "C10: b64enc is the standard encoding, 8-bit clean (character 2)");
  if (VX_LEN > 1) verif_assert(enc[2] == STD[((b1 & 15) << 2) | (b2 >> 6)], "C10: b64enc is the standard encoding, 8-bit clean (character 3)"); else verif_assert(enc[2] == '=', "C10: padding");
  if (VX_LEN > 2) verif_assert(enc[3] == STD[b2 & 63], "C10: b64enc is the standard encoding, 8-bit clean (character 4)"); else verif_assert(enc[3] == '=', "C10: padding");
  TabChar dec;
  b64decode(enc.data(), enc.size(), dec);
  verif_assert(dec.size() == VX_LEN, "C10: b64dec(b64enc(x)) has the length of x");
  for (int i = 0; i < VX_LEN; ++i) if (dec.size() == VX_LEN) verif_assert((unsigned char)dec[i] == in[i], "C10: b64dec(b64enc(x)) = x");
}
