// C11 kernel K2: a failed redefinition of a declared function is rolled back (FunctorManager::createOrReplace / rollback)
#include <string>
#include <vector>
#include <memory>
#include <forward_list>
#define private public
#define protected public
#include "vx_harness.h"
#include <blocc/functor_manager.h>
#include <blocc/statement.h>
#undef private
#undef protected
using namespace vx;
#ifndef VX_REDEF
#define VX_REDEF 1      /* which of the declared functions F(0) G(1) is redefined; 2 = a new function H */
#endif
extern "C" void c11_rollback()
{
  static Context root(1, 2);
  FunctorManager& fm = *root._fctm;
  fm._declarations.reserve(3);
  FunctorPtr f(new Functor()); f->name = "F"; static Statement bodyF(Statement::STMT_NOP); f->body = &bodyF;
  FunctorPtr g(new Functor()); g->name = "G"; static Statement bodyG(Statement::STMT_NOP); g->body = &bodyG;
  fm._declarations.emplace_back(FunctorManager::Entry(f));
  fm._declarations.emplace_back(FunctorManager::Entry(g));
  bool stale_backup = in_bool(0);      /* a backup left by an earlier successful redefinition must not matter */
  if (stale_backup) { FunctorPtr old(new Functor()); old->name = "G"; fm._backed = old; }
  std::vector<Symbol> noparams;
  /* what FUNCTIONStatement::parse does before parsing the body */
  FunctorPtr n(new Functor()); n->name = VX_REDEF == 0 ? "F" : VX_REDEF == 1 ? "G" : "H";
  verif_known(KF_ROLLBACK_NOT_LAST_FUNCTION, VX_REDEF == 0);
  FunctorManager::Entry& fe = fm.createOrReplace(n->name, noparams);
  fe.functor.swap(n);
#ifdef VX_LATER
  /* ... the function statement is accepted; a LATER statement of the same text fails to parse: Parser::parse calls
   * Context::parsingEnd() and rejects the whole text */
  verif_known(KF_FUNCTION_DEFINITION_SURVIVES_REJECTED_TEXT, true);
  root.parsingBegin();
  root.parsingEnd();
#else
  /* ... the body fails to parse: the catch block calls rollback() */
  fm.rollback();
#endif
  VX_WITNESS();
  verif_assert(fm._declarations.size() == 2, "C11: no declaration lost or added by a failed (re)definition");
#ifdef VX_LATER
  verif_assert(fm._declarations.size() == 2 && fm._declarations[0].functor->body == &bodyF && fm._declarations[1].functor->body == &bodyG, "C11: functions are as before a text that is rejected after it (re)defined one");
#endif
  if (fm._declarations.size() == 2) {
    verif_assert(fm._declarations[0].functor->body == &bodyF && fm._declarations[0].functor->name.compare("F") == 0, "C11: first function keeps its definition");
    verif_assert(fm._declarations[1].functor->body == &bodyG && fm._declarations[1].functor->name.compare("G") == 0, "C11: second function keeps its definition");
  }
}

// C11 kernel K1: symbols re-typed while parsing a text are restored by Context::parsingEnd(), whatever
// sequence of registerSymbol calls the (rejected) text made. VX_STEPS calls, each on a symbolic name among
// the existing variables A, B or a new name C, with a symbolic scalar type.
#ifndef VX_STEPS
#define VX_STEPS 2
#endif
static Type pick_type(int slot)
{
  int k = in_int(slot); verif_assume(k >= 0 && k < 4);
  return k == 0 ? Type(Type::BOOLEAN) : k == 1 ? Type(Type::INTEGER) : k == 2 ? Type(Type::NUMERIC) : Type(Type::LITERAL);
}
static void one_step(Context& ctx, int slot)
{
  int who = in_int(8 + slot); verif_assume(who >= 0 && who < 3);
  Type t = pick_type(slot);
  try {
    if (who == 0) ctx.registerSymbol("A", t);
    else if (who == 1) ctx.registerSymbol("B", t);
    else ctx.registerSymbol("C", t);
  } catch (ParseError&) { /* a rejected registration ends the text: parsingEnd follows */ }
}
extern "C" void c11_symbols()
{
  static Context ctx(1, 2);
  ctx._storage_pool.reserve(3); ctx._backed_symbols.reserve(VX_STEPS);
  Type ta = pick_type(6), tb = pick_type(7);
  bool sa = in_bool(0);
  ctx.registerSymbol("A", ta); ctx.registerSymbol("B", tb);
  ctx.getSymbol(0).safety(sa);
  ctx.parsingBegin();
  one_step(ctx, 0);
  if (VX_STEPS > 1) one_step(ctx, 1);
  if (VX_STEPS > 2) one_step(ctx, 2);
  ctx.parsingEnd();
  VX_WITNESS();
  verif_assert(ctx.getSymbol(0) == ta && ctx.getSymbol(0).name().compare("A") == 0, "C11: variable A keeps its type after the text is abandoned");
  verif_assert(ctx.getSymbol(1) == tb && ctx.getSymbol(1).name().compare("B") == 0, "C11: variable B keeps its type after the text is abandoned");
  verif_assert(ctx.getSymbol(0).safety() == sa && !ctx.getSymbol(0).locked() && !ctx.getSymbol(1).safety(), "C11: constraints of existing variables unchanged");
  verif_assert(ctx._backed_symbols.empty() && !ctx.parsing(), "C11: no backup is left behind, parsing mode is closed");
}

// C11 kernel K1b: Context::parsingEnd() alone, from an arbitrary list of VX_STEPS backups as registerSymbol leaves them
// (entry j holds the type symbol id_j had just before its j-th re-typing). Afterwards every re-typed symbol must be
// back to the type of its EARLIEST backup.
extern "C" void c11_parsing_end()
{
  static Context ctx(1, 2);
  ctx._storage_pool.reserve(2);
  Type ta = pick_type(6), tb = pick_type(7);
  ctx._storage_pool.push_back(Context::MemorySlot(Symbol(0, "A", ta)));
  ctx._storage_pool.push_back(Context::MemorySlot(Symbol(1, "B", tb)));
  ctx._backed_symbols.reserve(VX_STEPS);
  Type cur[2] = { ta, tb };
  for (int j = 0; j < VX_STEPS; ++j) {
    bool onB = in_bool(j);
    Type nt = pick_type(j);
    /* what registerSymbol does: back up the current symbol, then upgrade it */
    ctx._backed_symbols.push_back(Symbol(onB ? 1 : 0, onB ? "B" : "A", cur[onB ? 1 : 0]));
    cur[onB ? 1 : 0] = nt;
    ctx.getSymbol(onB ? 1 : 0).upgrade(nt);
  }
  ctx._parsing = true;
  ctx.parsingEnd();
  VX_WITNESS();
  verif_assert(ctx.getSymbol(0) == ta, "C11/C02: variable A is back to its type from before the abandoned text");
  verif_assert(ctx.getSymbol(1) == tb, "C11/C02: variable B is back to its type from before the abandoned text");
  verif_assert(ctx._backed_symbols.empty() && !ctx.parsing(), "C11: no backup is left behind, parsing mode is closed");
}
