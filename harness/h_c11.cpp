// C11 kernel K2: a failed redefinition of a declared function is rolled back (FunctorManager::createOrReplace / rollback)
#include <string>
#include <vector>
#include <memory>
#include <forward_list>
#define private public
#define protected public
#include "vx_harness.h"
#include <blocc/functor_manager.h>
#include <blocc/statement.h>
#undef private
#undef protected
using namespace vx;
#ifndef VX_REDEF
#define VX_REDEF 1      /* which of the declared functions F(0) G(1) is redefined; 2 = a new function H */
#endif
extern "C" void c11_rollback()
{
  static Context root(1, 2);
  FunctorManager& fm = *root._fctm;
  fm._declarations.reserve(3);
  FunctorPtr f(new Functor()); f->name = "F"; static Statement bodyF(Statement::STMT_NOP); f->body = &bodyF;
  FunctorPtr g(new Functor()); g->name = "G"; static Statement bodyG(Statement::STMT_NOP); g->body = &bodyG;
  fm._declarations.emplace_back(FunctorManager::Entry(f));
  fm._declarations.emplace_back(FunctorManager::Entry(g));
  bool stale_backup = in_bool(0);      /* a backup left by an earlier successful redefinition must not matter */
  if (stale_backup) { FunctorPtr old(new Functor()); old->name = "G"; fm._backed = old; }
  std::vector<Symbol> noparams;
  /* what FUNCTIONStatement::parse does before parsing the body */
  FunctorPtr n(new Functor()); n->name = VX_REDEF == 0 ? "F" : VX_REDEF == 1 ? "G" : "H";
  verif_known(KF_ROLLBACK_NOT_LAST_FUNCTION, VX_REDEF == 0);
  FunctorManager::Entry& fe = fm.createOrReplace(n->name, noparams);
  fe.functor.swap(n);
  /* ... the body fails to parse: the catch block calls rollback() */
  fm.rollback();
  VX_WITNESS();
  verif_assert(fm._declarations.size() == 2, "C11: no declaration lost or added by a failed (re)definition");
  if (fm._declarations.size() == 2) {
    verif_assert(fm._declarations[0].functor->body == &bodyF && fm._declarations[0].functor->name.compare("F") == 0, "C11: first function keeps its definition");
    verif_assert(fm._declarations[1].functor->body == &bodyG && fm._declarations[1].functor->name.compare("G") == 0, "C11: second function keeps its definition");
  }
}
