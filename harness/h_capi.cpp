// C API kernels (C15, C01): the real bloc_capi.cpp entry points on symbolic values.
// Instance parameter VX_VK = kind of the value handed to the API (concrete); nullness, lvalue flag and
// payload are symbolic.
#include "vx_harness.h"
#include <blocc/bloc_capi.h>
#include <blocc/collection.h>
#include <blocc/tuple.h>
#include <cstring>
using namespace vx;

#ifndef VX_VK
#define VX_VK K_INTEGER
#endif

static Value* mkval(int kind, bool isnull, bool lval, long i, double d, bool b, unsigned char c0, unsigned char c1, int len)
{
  Value* v;
  switch (kind) {
  case K_BOOLEAN: v = new Value(Bool(b)); if (isnull) v->swap(Value(Value::type_boolean)); break;
  case K_INTEGER: v = new Value(Integer(i)); if (isnull) v->swap(Value(Value::type_integer)); break;
  case K_NUMERIC: v = new Value(Numeric(d)); if (isnull) v->swap(Value(Value::type_numeric)); break;
  case K_LITERAL: { Literal* s = new Literal(); if (len > 0) s->push_back((char)c0); if (len > 1) s->push_back((char)c1); v = new Value(s); if (isnull) v->swap(Value(Value::type_literal)); break; }
  case K_TABCHAR: { TabChar* t = new TabChar(2); (*t)[0] = (char)c0; (*t)[1] = (char)c1; t->resize(len); v = new Value(t); if (isnull) v->swap(Value(Value::type_tabchar)); break; }
  case K_IMAGINARY: { Imaginary* im = new Imaginary{d, (double)i}; v = new Value(im); if (isnull) v->swap(Value(Value::type_imaginary)); break; }
  default: v = new Value(); break;
  }
  v->to_lvalue(lval);
  return v;
}

// K1: typed accessors succeed exactly on the matching type and yield NULL data for a null value
extern "C" void c15_accessors()
{
  bool isnull = in_bool(0), lval = in_bool(1), b = in_bool(2);
  long i = in_long(0); double d = in_double(0);
  unsigned char c0 = in_uchar(0), c1 = in_uchar(1); int len = in_int(0);
  verif_assume(len >= 0 && len <= 2);
  if (VX_VK == K_NOTYPE) isnull = true;
  verif_known(KF_CAPI_LITERAL_TABCHAR_TYPED_NULL, (VX_VK == K_LITERAL || VX_VK == K_TABCHAR) && isnull);
  Value* v = mkval(VX_VK, isnull, lval, i, d, b, c0, c1, len);
  bloc_value* bv = reinterpret_cast<bloc_value*>(v);

  bloc_type t = bloc_value_type(bv);
  verif_assert((int)t.major == (int)v->type().major() && t.ndim == 0, "C15: bloc_value_type reports the value's type");
  verif_assert((bloc_value_isnull(bv) == bloc_true) == isnull, "C15: bloc_value_isnull reports nullness");

  bloc_bool* pb = (bloc_bool*)1; int64_t* pi = (int64_t*)1; double* pd = (double*)1; const char* ps = (const char*)1;
  const char* pt = (const char*)1; unsigned tl = 77; bloc_pair* pp = (bloc_pair*)1; bloc_array* pa = (bloc_array*)1; bloc_row* pr = (bloc_row*)1;
  bloc_bool ok;

  ok = bloc_boolean(bv, &pb);
  verif_assert((ok == bloc_true) == (VX_VK == K_BOOLEAN), "C15: bloc_boolean succeeds exactly on a boolean");
  if (ok == bloc_true) verif_assert(isnull ? pb == nullptr : (pb != nullptr && (*pb != bloc_false) == b), "C15: bloc_boolean yields NULL for null, else the payload");
  else verif_assert(bloc_errno() != 0, "C15: failed accessor sets bloc_errno");

  ok = bloc_integer(bv, &pi);
  verif_assert((ok == bloc_true) == (VX_VK == K_INTEGER), "C15: bloc_integer succeeds exactly on an integer");
  if (ok == bloc_true) verif_assert(isnull ? pi == nullptr : (pi != nullptr && *pi == i), "C15: bloc_integer yields NULL for null, else the payload");
  else verif_assert(bloc_errno() != 0, "C15: failed accessor sets bloc_errno");

  ok = bloc_numeric(bv, &pd);
  verif_assert((ok == bloc_true) == (VX_VK == K_NUMERIC), "C15: bloc_numeric succeeds exactly on a decimal");
  if (ok == bloc_true) verif_assert(isnull ? pd == nullptr : (pd != nullptr && std::memcmp(pd, &d, 8) == 0), "C15: bloc_numeric yields NULL for null, else the payload");
  else verif_assert(bloc_errno() != 0, "C15: failed accessor sets bloc_errno");

  ok = bloc_literal(bv, &ps);
  verif_assert((ok == bloc_true) == (VX_VK == K_LITERAL), "C15: bloc_literal succeeds exactly on a string");
  if (ok == bloc_true) {
    if (isnull) verif_assert(ps == nullptr, "C15: bloc_literal yields NULL data for a null value");
    else verif_assert(ps != nullptr && (len < 1 || ps[0] == (char)c0) && (len < 2 || ps[1] == (char)c1) && ps[len] == 0, "C15: bloc_literal yields the NUL-terminated content");
  } else verif_assert(bloc_errno() != 0, "C15: failed accessor sets bloc_errno");

  ok = bloc_tabchar(bv, &pt, &tl);
  verif_assert((ok == bloc_true) == (VX_VK == K_TABCHAR), "C15: bloc_tabchar succeeds exactly on bytes");
  if (ok == bloc_true) {
    if (isnull) verif_assert(pt == nullptr, "C15: bloc_tabchar yields NULL data for a null value");
    else verif_assert(tl == (unsigned)len && (len < 1 || pt[0] == (char)c0) && (len < 2 || pt[1] == (char)c1), "C15: bloc_tabchar yields content and length");
  } else verif_assert(bloc_errno() != 0, "C15: failed accessor sets bloc_errno");

  ok = bloc_imaginary(bv, &pp);
  verif_assert((ok == bloc_true) == (VX_VK == K_IMAGINARY), "C15: bloc_imaginary succeeds exactly on a complex number");
  if (ok == bloc_true) verif_assert(isnull ? pp == nullptr : (pp != nullptr && std::memcmp(&pp->a, &d, 8) == 0 && pp->b == (double)i), "C15: bloc_imaginary yields NULL for null, else the payload");

  ok = bloc_table(bv, &pa);
  verif_assert(ok == bloc_false, "C15: bloc_table fails on a scalar");
  ok = bloc_tuple(bv, &pr);
  verif_assert(ok == bloc_false, "C15: bloc_tuple fails on a non-tuple");
  verif_assert(v->lvalue() == lval && v->isNull() == isnull, "C15: accessors do not change the value");
  VX_WITNESS();
}

// K2: creators and assigners
extern "C" void c15_creators()
{
  long i = in_long(0); double d = in_double(0); bool b = in_bool(0), lval = in_bool(1), usenull = in_bool(2);
  char txt[3]; txt[0] = (char)in_uchar(0); txt[1] = (char)in_uchar(1); txt[2] = 0;
  int len = txt[0] == 0 ? 0 : txt[1] == 0 ? 1 : 2;

  Value* vi = reinterpret_cast<Value*>(bloc_create_integer(i));
  verif_assert(vi->type() == Value::type_integer && !vi->isNull() && *vi->integer() == i && !vi->lvalue(), "C15: bloc_create_integer");
  Value* vd = reinterpret_cast<Value*>(bloc_create_numeric(d));
  { double x = *vd->numeric(); verif_assert(vd->type() == Value::type_numeric && !vd->isNull() && std::memcmp(&x, &d, 8) == 0, "C15: bloc_create_numeric"); }
  Value* vb = reinterpret_cast<Value*>(bloc_create_boolean(b ? bloc_true : bloc_false));
  verif_assert(vb->type() == Value::type_boolean && !vb->isNull() && *vb->boolean() == b, "C15: bloc_create_boolean");
  Value* vs = reinterpret_cast<Value*>(bloc_create_literal(usenull ? nullptr : txt));
  verif_assert(vs->type() == Value::type_literal && vs->isNull() == usenull, "C15: bloc_create_literal type and nullness");
  if (!usenull) verif_assert((int)vs->literal()->size() == len && std::memcmp(vs->literal()->data(), txt, len) == 0, "C15: bloc_create_literal content");
  Value* vt = reinterpret_cast<Value*>(bloc_create_tabchar(usenull ? nullptr : txt, 2));
  verif_assert(vt->type() == Value::type_tabchar && vt->isNull() == usenull, "C15: bloc_create_tabchar type and nullness");
  if (!usenull) verif_assert(vt->tabchar()->size() == 2 && (*vt->tabchar())[0] == txt[0] && (*vt->tabchar())[1] == txt[1], "C15: bloc_create_tabchar content (8-bit clean)");
  { Value* ve = reinterpret_cast<Value*>(bloc_create_tabchar(txt, 0));
    verif_assert(ve->type() == Value::type_tabchar && !ve->isNull() && ve->tabchar()->size() == 0, "C15: bloc_create_tabchar with a non-NULL pointer and length 0 creates an empty bytes value, not a null (only a NULL pointer means null)"); }

  /* assigners keep the lvalue flag and replace the content */
  vs->to_lvalue(lval);
  bloc_bool ok = bloc_assign_literal(reinterpret_cast<bloc_value*>(vs), usenull ? txt : nullptr);
  verif_assert(ok == bloc_true && vs->lvalue() == lval && vs->type() == Value::type_literal && vs->isNull() == !usenull, "C15: bloc_assign_literal replaces content, keeps the lvalue flag");
  ok = bloc_assign_literal(reinterpret_cast<bloc_value*>(vi), txt);
  verif_assert(ok == bloc_false && vi->type() == Value::type_integer && *vi->integer() == i, "C15: bloc_assign_literal refuses a non-string value and leaves it unchanged");
  vd->to_lvalue(lval);
  bloc_assign_null(reinterpret_cast<bloc_value*>(vd));
  verif_assert(vd->isNull() && vd->type() == Value::type_numeric && vd->lvalue() == lval, "C15: bloc_assign_null keeps type and lvalue flag");
  Value* vn = reinterpret_cast<Value*>(bloc_create_null((bloc_type_major)VX_VK == (bloc_type_major)K_NOTYPE ? (bloc_type_major)0 : INTEGER));
  verif_assert(vn->isNull(), "C15: bloc_create_null creates a null");
  bloc_free_value(reinterpret_cast<bloc_value*>(vi)); bloc_free_value(reinterpret_cast<bloc_value*>(vn));
  VX_WITNESS();
}

// K3: values stored through the API are the values read back; the payload is moved out of the caller's value; item access is bounded
#include <blocc/executable.h>
extern "C" void c15_store_load()
{
  bloc_context* ctx = bloc_create_context(1, 2);
  bloc_type ti = { INTEGER, 0 };
  bloc_symbol* s = bloc_ctx_register_symbol(ctx, "X", ti);
  verif_assert(s != nullptr && bloc_ctx_find_symbol(ctx, "X") == s, "C15: a registered symbol is found again by name");
  verif_assert(bloc_ctx_find_symbol(ctx, "Y") == nullptr, "C15: an unknown name yields NULL");
  long i = in_long(0); bool isnull = in_bool(0);
  bloc_value* v = isnull ? bloc_create_null(INTEGER) : bloc_create_integer(i);
  bloc_bool ok = bloc_ctx_store_variable(ctx, s, v);
  VX_WITNESS();
  verif_assert(ok == bloc_true, "C15: storing an integer into an integer symbol succeeds");
  verif_assert(bloc_value_isnull(v) == bloc_true, "C15: store moves the payload out of the caller's value (it becomes null, still freeable)");
  bloc_value* r = bloc_ctx_load_variable(ctx, s);
  int64_t* pi = (int64_t*)1;
  verif_assert(r != nullptr && r != v && bloc_integer(r, &pi) == bloc_true, "C15: the loaded value is the library's own integer value");
  verif_assert(isnull ? pi == nullptr : (pi != nullptr && *pi == i), "C15: values stored through the API are the values read back");
  bloc_free_value(v);
  /* a string into the integer symbol changes its type (not type-safe symbol): allowed; read back as string */
  char txt[2]; txt[0] = (char)in_uchar(0); txt[1] = 0;
  bloc_value* sv = bloc_create_literal(txt);
  ok = bloc_ctx_store_variable(ctx, s, sv);
  const char* ps = nullptr;
  verif_assert(ok == bloc_true && bloc_literal(bloc_ctx_load_variable(ctx, s), &ps) == bloc_true && ps != nullptr && ps[0] == txt[0], "C15: a string stored through the API is read back as that string");
  bloc_free_value(sv);
  /* a symbol registered with a type has exactly that type (major and number of dimensions) before anything is stored in it */
  int nd = in_int(1); verif_assume(nd >= 0 && nd <= 3);
  bloc_type tt = { LITERAL, (unsigned char)nd };
  bloc_symbol* s2 = bloc_ctx_register_symbol(ctx, "T", tt);
  verif_assert(s2 != nullptr, "C15: registering a new symbol with a table type succeeds");
  if (s2 != nullptr) {
    bloc_type got = bloc_value_type(bloc_ctx_load_variable(ctx, s2));
    verif_assert(got.major == LITERAL && got.ndim == nd, "C15: a symbol registered through the API has the requested type, major and number of dimensions");
    Symbol* sym = reinterpret_cast<Symbol*>(s2);
    verif_assert(sym->major() == Type::LITERAL && sym->level() == (unsigned)nd && sym->minor() == 0, "C15/C02: the registered symbol carries the requested type for the next compilation");
  }
}
extern "C" void c15_items()
{
  Collection* col = new Collection(Type(Type::INTEGER, 0, 1)); col->reserve(2);
  col->push_back(Value(Integer(10))); col->push_back(Value(Integer(20)));
  Value* tv = new Value(col);
  bloc_array* arr = nullptr;
  verif_assert(bloc_table(reinterpret_cast<bloc_value*>(tv), &arr) == bloc_true && arr != nullptr && bloc_array_size(arr) == 2, "C15: bloc_table yields the table and its size");
  unsigned idx = (unsigned)in_int(0);
  bloc_value* item = (bloc_value*)1;
  bloc_bool ok = bloc_array_item(arr, idx, &item);
  VX_WITNESS();
  verif_assert((ok == bloc_true) == (idx < 2), "C15: bloc_array_item succeeds exactly for an index below the size");
  if (ok == bloc_true) { int64_t* pi = nullptr; verif_assert(bloc_integer(item, &pi) == bloc_true && pi && *pi == (idx == 0 ? 10 : 20), "C15: bloc_array_item yields element idx"); }
  Tuple::container_t items(2); items[0] = Value(Integer(1)); items[1] = Value(Bool(true));
  Value* uv = new Value(new Tuple(std::move(items)));
  bloc_row* row = nullptr;
  verif_assert(bloc_tuple(reinterpret_cast<bloc_value*>(uv), &row) == bloc_true && row != nullptr && bloc_tuple_size(row) == 2, "C15: bloc_tuple yields the tuple and its size");
  ok = bloc_tuple_item(row, idx, &item);
  verif_assert((ok == bloc_true) == (idx < 2), "C15: bloc_tuple_item succeeds exactly for an index below the size");
}
// K4: evaluation / execution wrappers: a BLOC error becomes NULL / false + errno, nothing escapes
static int eval_mode;   /* 0 returns a value, 1 raises */
struct ThrowExpr : SymExpr { Value& value(Context& c) const override { if (eval_mode == 1) throw RuntimeError(EXC_RT_DIVIDE_BY_ZERO); return SymExpr::value(c); } };
extern "C" void c15_evaluate()
{
  bloc_context* ctx = bloc_create_context(1, 2);
  ThrowExpr* e = new ThrowExpr; e->v = new Value(Integer(in_long(0))); e->t = Type(Type::INTEGER);
  eval_mode = in_bool(0) ? 1 : 0;
  bloc_value* r = (bloc_value*)1;
  try { r = bloc_evaluate_expression(ctx, reinterpret_cast<bloc_expression*>(e)); } catch (...) { verif_assert(false, "C15/C01: no exception crosses the C API boundary"); return; }
  VX_WITNESS();
  if (eval_mode == 1) verif_assert(r == nullptr && bloc_errno() == EXC_RT_DIVIDE_BY_ZERO && bloc_strerror() != nullptr, "C15: a failed evaluation returns NULL with bloc_errno / bloc_strerror set");
  else verif_assert(r == reinterpret_cast<bloc_value*>(e->v), "C15: a successful evaluation returns the (library-owned) result value");
  bloc_type t = bloc_expression_type(ctx, reinterpret_cast<bloc_expression*>(e));
  verif_assert((int)t.major == (int)Type::INTEGER && t.ndim == 0, "C15: bloc_expression_type reports the expression's type");
}
