// C API kernels (C15, C01): the real bloc_capi.cpp entry points on symbolic values.
// Instance parameter VX_VK = kind of the value handed to the API (concrete); nullness, lvalue flag and
// payload are symbolic.
#include "vx_harness.h"
#include <blocc/bloc_capi.h>
#include <blocc/collection.h>
#include <blocc/tuple.h>
#include <cstring>
using namespace vx;

#ifndef VX_VK
#define VX_VK K_INTEGER
#endif

static Value* mkval(int kind, bool isnull, bool lval, long i, double d, bool b, unsigned char c0, unsigned char c1, int len)
{
  Value* v;
  switch (kind) {
  case K_BOOLEAN: v = new Value(Bool(b)); if (isnull) v->swap(Value(Value::type_boolean)); break;
  case K_INTEGER: v = new Value(Integer(i)); if (isnull) v->swap(Value(Value::type_integer)); break;
  case K_NUMERIC: v = new Value(Numeric(d)); if (isnull) v->swap(Value(Value::type_numeric)); break;
  case K_LITERAL: { Literal* s = new Literal(); if (len > 0) s->push_back((char)c0); if (len > 1) s->push_back((char)c1); v = new Value(s); if (isnull) v->swap(Value(Value::type_literal)); break; }
  case K_TABCHAR: { TabChar* t = new TabChar(2); (*t)[0] = (char)c0; (*t)[1] = (char)c1; t->resize(len); v = new Value(t); if (isnull) v->swap(Value(Value::type_tabchar)); break; }
  case K_IMAGINARY: { Imaginary* im = new Imaginary{d, (double)i}; v = new Value(im); if (isnull) v->swap(Value(Value::type_imaginary)); break; }
  default: v = new Value(); break;
  }
  v->to_lvalue(lval);
  return v;
}

// K1: typed accessors succeed exactly on the matching type and yield NULL data for a null value
extern "C" void c15_accessors()
{
  bool isnull = in_bool(0), lval = in_bool(1), b = in_bool(2);
  long i = in_long(0); double d = in_double(0);
  unsigned char c0 = in_uchar(0), c1 = in_uchar(1); int len = in_int(0);
  verif_assume(len >= 0 && len <= 2);
  if (VX_VK == K_NOTYPE) isnull = true;
  verif_known(KF_CAPI_LITERAL_TABCHAR_TYPED_NULL, (VX_VK == K_LITERAL || VX_VK == K_TABCHAR) && isnull);
  Value* v = mkval(VX_VK, isnull, lval, i, d, b, c0, c1, len);
  bloc_value* bv = reinterpret_cast<bloc_value*>(v);

  bloc_type t = bloc_value_type(bv);
  verif_assert((int)t.major == (int)v->type().major() && t.ndim == 0, "C15: bloc_value_type reports the value's type");
  verif_assert((bloc_value_isnull(bv) == bloc_true) == isnull, "C15: bloc_value_isnull reports nullness");

  bloc_bool* pb = (bloc_bool*)1; int64_t* pi = (int64_t*)1; double* pd = (double*)1; const char* ps = (const char*)1;
  const char* pt = (const char*)1; unsigned tl = 77; bloc_pair* pp = (bloc_pair*)1; bloc_array* pa = (bloc_array*)1; bloc_row* pr = (bloc_row*)1;
  bloc_bool ok;

  ok = bloc_boolean(bv, &pb);
  verif_assert((ok == bloc_true) == (VX_VK == K_BOOLEAN), "C15: bloc_boolean succeeds exactly on a boolean");
  if (ok == bloc_true) verif_assert(isnull ? pb == nullptr : (pb != nullptr && (*pb != bloc_false) == b), "C15: bloc_boolean yields NULL for null, else the payload");
  else verif_assert(bloc_errno() != 0, "C15: failed accessor sets bloc_errno");

  ok = bloc_integer(bv, &pi);
  verif_assert((ok == bloc_true) == (VX_VK == K_INTEGER), "C15: bloc_integer succeeds exactly on an integer");
  if (ok == bloc_true) verif_assert(isnull ? pi == nullptr : (pi != nullptr && *pi == i), "C15: bloc_integer yields NULL for null, else the payload");
  else verif_assert(bloc_errno() != 0, "C15: failed accessor sets bloc_errno");

  ok = bloc_numeric(bv, &pd);
  verif_assert((ok == bloc_true) == (VX_VK == K_NUMERIC), "C15: bloc_numeric succeeds exactly on a decimal");
  if (ok == bloc_true) verif_assert(isnull ? pd == nullptr : (pd != nullptr && std::memcmp(pd, &d, 8) == 0), "C15: bloc_numeric yields NULL for null, else the payload");
  else verif_assert(bloc_errno() != 0, "C15: failed accessor sets bloc_errno");

  ok = bloc_literal(bv, &ps);
  verif_assert((ok == bloc_true) == (VX_VK == K_LITERAL), "C15: bloc_literal succeeds exactly on a string");
  if (ok == bloc_true) {
    if (isnull) verif_assert(ps == nullptr, "C15: bloc_literal yields NULL data for a null value");
    else verif_assert(ps != nullptr && (len < 1 || ps[0] == (char)c0) && (len < 2 || ps[1] == (char)c1) && ps[len] == 0, "C15: bloc_literal yields the NUL-terminated content");
  } else verif_assert(bloc_errno() != 0, "C15: failed accessor sets bloc_errno");

  ok = bloc_tabchar(bv, &pt, &tl);
  verif_assert((ok == bloc_true) == (VX_VK == K_TABCHAR), "C15: bloc_tabchar succeeds exactly on bytes");
  if (ok == bloc_true) {
    if (isnull) verif_assert(pt == nullptr, "C15: bloc_tabchar yields NULL data for a null value");
    else verif_assert(tl == (unsigned)len && (len < 1 || pt[0] == (char)c0) && (len < 2 || pt[1] == (char)c1), "C15: bloc_tabchar yields content and length");
  } else verif_assert(bloc_errno() != 0, "C15: failed accessor sets bloc_errno");

  ok = bloc_imaginary(bv, &pp);
  verif_assert((ok == bloc_true) == (VX_VK == K_IMAGINARY), "C15: bloc_imaginary succeeds exactly on a complex number");
  if (ok == bloc_true) verif_assert(isnull ? pp == nullptr : (pp != nullptr && std::memcmp(&pp->a, &d, 8) == 0 && pp->b == (double)i), "C15: bloc_imaginary yields NULL for null, else the payload");

  ok = bloc_table(bv, &pa);
  verif_assert(ok == bloc_false, "C15: bloc_table fails on a scalar");
  ok = bloc_tuple(bv, &pr);
  verif_assert(ok == bloc_false, "C15: bloc_tuple fails on a non-tuple");
  verif_assert(v->lvalue() == lval && v->isNull() == isnull, "C15: accessors do not change the value");
  VX_WITNESS();
}

// K2: creators and assigners
extern "C" void c15_creators()
{
  long i = in_long(0); double d = in_double(0); bool b = in_bool(0), lval = in_bool(1), usenull = in_bool(2);
  char txt[3]; txt[0] = (char)in_uchar(0); txt[1] = (char)in_uchar(1); txt[2] = 0;
  int len = txt[0] == 0 ? 0 : txt[1] == 0 ? 1 : 2;

  Value* vi = reinterpret_cast<Value*>(bloc_create_integer(i));
  verif_assert(vi->type() == Value::type_integer && !vi->isNull() && *vi->integer() == i && !vi->lvalue(), "C15: bloc_create_integer");
  Value* vd = reinterpret_cast<Value*>(bloc_create_numeric(d));
  { double x = *vd->numeric(); verif_assert(vd->type() == Value::type_numeric && !vd->isNull() && std::memcmp(&x, &d, 8) == 0, "C15: bloc_create_numeric"); }
  Value* vb = reinterpret_cast<Value*>(bloc_create_boolean(b ? bloc_true : bloc_false));
  verif_assert(vb->type() == Value::type_boolean && !vb->isNull() && *vb->boolean() == b, "C15: bloc_create_boolean");
  Value* vs = reinterpret_cast<Value*>(bloc_create_literal(usenull ? nullptr : txt));
  verif_assert(vs->type() == Value::type_literal && vs->isNull() == usenull, "C15: bloc_create_literal type and nullness");
  if (!usenull) verif_assert((int)vs->literal()->size() == len && std::memcmp(vs->literal()->data(), txt, len) == 0, "C15: bloc_create_literal content");
  Value* vt = reinterpret_cast<Value*>(bloc_create_tabchar(usenull ? nullptr : txt, 2));
  verif_assert(vt->type() == Value::type_tabchar && vt->isNull() == usenull, "C15: bloc_create_tabchar type and nullness");
  if (!usenull) verif_assert(vt->tabchar()->size() == 2 && (*vt->tabchar())[0] == txt[0] && (*vt->tabchar())[1] == txt[1], "C15: bloc_create_tabchar content (8-bit clean)");

  /* assigners keep the lvalue flag and replace the content */
  vs->to_lvalue(lval);
  bloc_bool ok = bloc_assign_literal(reinterpret_cast<bloc_value*>(vs), usenull ? txt : nullptr);
  verif_assert(ok == bloc_true && vs->lvalue() == lval && vs->type() == Value::type_literal && vs->isNull() == !usenull, "C15: bloc_assign_literal replaces content, keeps the lvalue flag");
  ok = bloc_assign_literal(reinterpret_cast<bloc_value*>(vi), txt);
  verif_assert(ok == bloc_false && vi->type() == Value::type_integer && *vi->integer() == i, "C15: bloc_assign_literal refuses a non-string value and leaves it unchanged");
  vd->to_lvalue(lval);
  bloc_assign_null(reinterpret_cast<bloc_value*>(vd));
  verif_assert(vd->isNull() && vd->type() == Value::type_numeric && vd->lvalue() == lval, "C15: bloc_assign_null keeps type and lvalue flag");
  Value* vn = reinterpret_cast<Value*>(bloc_create_null((bloc_type_major)VX_VK == (bloc_type_major)K_NOTYPE ? (bloc_type_major)0 : INTEGER));
  verif_assert(vn->isNull(), "C15: bloc_create_null creates a null");
  bloc_free_value(reinterpret_cast<bloc_value*>(vi)); bloc_free_value(reinterpret_cast<bloc_value*>(vn));
  VX_WITNESS();
}
