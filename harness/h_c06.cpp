// C06 kernels: FORStatement::doit (first entry, inductive re-entry step, short complete runs),
// WHILEStatement / IFStatement condition handling. The loop body (Executable::run) is a stub owned
// by the harness: it records the iterator and may request break / continue / return or overwrite the
// iterator, all symbolically.
#include <string>
#include <vector>
#include <list>
#include <memory>
#include <forward_list>
#define private public
#define protected public
#include "vx_harness.h"
#include <blocc/statement_for.h>
#include <blocc/statement_forall.h>
#include <blocc/collection.h>
#include <blocc/statement_while.h>
#include <blocc/statement_if.h>
#include <blocc/expression_variable.h>
#include <blocc/executable.h>
#undef private
#undef protected
#include <climits>
using namespace vx;

#ifndef VX_ORDER
#define VX_ORDER FORStatement::AUTO
#endif

static int body_runs = 0; static long seen[6];
static int body_action[6];          /* 0 nothing, 1 break, 2 continue, 3 return */
static bool body_writes[6]; static long body_newval[6];
namespace bloc {
int Executable::run(Context& ctx, const std::list<const Statement*>&) {
  int k = body_runs < 6 ? body_runs : 5;
  Value& itv = ctx.loadVariable(0).deref_value();
  seen[k] = *itv.integer();
  if (body_writes[k]) *itv.integer() = body_newval[k];
  if (body_action[k] == 1) ctx.breakCondition(true);
  else if (body_action[k] == 2) ctx.continueCondition(true);
  else if (body_action[k] == 3) ctx.returnCondition(true);
  ++body_runs;
  return 0;
}
Executable::~Executable() { }
}

static FORStatement* mkfor(Context& ctx, Symbol& sv, SymExpr* eb, SymExpr* ee, SymExpr* es, Statement* next)
{
  static std::list<const Statement*> none;
  static FORStatement f;
  f._var = new VariableExpression(sv); f._expBeg = eb; f._expEnd = ee; f._expStp = es;
  f._exec = new Executable(ctx, none);
  f._order = VX_ORDER;
  f._next = next;
  return &f;
}

// K1a: first entry for all headers (full int64 bounds and step, null flags symbolic)
extern "C" void c06_for_first()
{
  static Context ctx(1, 2);
  ctx._storage_pool.reserve(2); ctx._controlstack._stack.reserve(2);
  Symbol& sv = ctx.registerSymbol("I", Type::INTEGER);
  static FORStatement nextstmt;
  static SymExpr eb, ee, es;
  long b = in_long(0), e = in_long(1), s = in_long(2);
  bool nb = in_bool(0), ne = in_bool(1), ns = in_bool(2), has_step = in_bool(3), safe0 = in_bool(4);
  static Value vb{Integer(0)}, ve{Integer(0)}, vs{Integer(0)};
  *vb.integer() = b; *ve.integer() = e; *vs.integer() = s;
  if (nb) vb.swap(Value(Value::type_integer)); if (ne) ve.swap(Value(Value::type_integer)); if (ns) vs.swap(Value(Value::type_integer));
  ve.to_lvalue(true); vs.to_lvalue(true);
  eb.v = &vb; ee.v = &ve; es.v = &vs;
  sv.safety(safe0);
  FORStatement* f = mkfor(ctx, sv, &eb, &ee, has_step ? &es : nullptr, &nextstmt);
  bool thrown = false; int code = 0; const Statement* nx = nullptr;
  try { nx = f->doit(ctx); }
  catch (RuntimeError& re) { thrown = true; code = re.no; }
  catch (...) { verif_assert(false, "C01: only RuntimeError may leave FOR"); return; }
  VX_WITNESS();
  bool anynull = nb || ne || (has_step && ns);
  long step = has_step ? s : 1;
  /* the statement evaluates begin, end, then step: a null stops before a bad step is looked at only for begin/end */
  if (nb || ne || (has_step && ns)) {
    verif_assert(!thrown && nx == &nextstmt && body_runs == 0 && ctx.topControl() == nullptr, "C06: a null bound or step gives zero iterations");
    verif_assert(sv.safety() == safe0, "C06: zero-iteration loop leaves the iterator constraint as it was");
    return;
  }
  (void)anynull;
  if (step < 1) { verif_assert(thrown && code == EXC_RT_OUT_OF_RANGE, "C06: step below 1 raises OUT_OF_RANGE"); verif_assert(ctx.topControl() == nullptr, "C06: rejected step leaves no control behind"); return; }
  verif_assert(!thrown, "C06: valid header does not raise");
  if (thrown) return;
  bool asc = e > b, eq = e == b;
  bool zero = (VX_ORDER == FORStatement::DESC && asc) || (VX_ORDER == FORStatement::ASC && !asc && !eq);
  if (zero) {
    verif_assert(nx == &nextstmt && body_runs == 0 && ctx.topControl() == nullptr && sv.safety() == safe0, "C06: unmeetable direction gives zero iterations");
    return;
  }
  verif_assert(body_runs == 1 && seen[0] == b, "C06: first iteration runs with the first bound");
  if (body_action[0] == 0) {
    verif_assert(nx == f && ctx.topControl() == f, "C06: loop keeps control after the first iteration");
    FORStatement::RT* rt = reinterpret_cast<FORStatement::RT*>(ctx.topControlData());
    verif_assert(rt->min == (asc ? b : e) && rt->max == (asc ? e : b) && rt->step == (asc ? step : -step), "C06: range and signed step as specified");
    verif_assert(sv.safety() && rt->safety_bak == safe0, "C06: iterator is type-safe inside the loop, previous state saved");
  }
}

// K1b: inductive re-entry step from an arbitrary iteration record (covers histories of any length)
extern "C" void c06_for_step()
{
  static Context ctx(1, 2);
  ctx._storage_pool.reserve(2); ctx._controlstack._stack.reserve(2);
  Symbol& sv = ctx.registerSymbol("I", Type::INTEGER);
  static FORStatement nextstmt;
  FORStatement* f = mkfor(ctx, sv, nullptr, nullptr, nullptr, &nextstmt);
  long it = in_long(0), mn = in_long(1), mx = in_long(2), st = in_long(3);
  bool safe0 = in_bool(0);
  int act = in_int(0); verif_assume(act >= 0 && act <= 3);
  body_action[0] = act;
  /* representation invariant of a running loop: first/limit ordered, step sign fixed by direction. The iterator itself is
     ARBITRARY: the body may have assigned it any integer (inside or outside [first, limit]) */
  verif_assume(mn <= mx && st != 0 && st != LONG_MIN);
  verif_known(KF_FOR_NEXT_OVERFLOW, (st > 0 && it > LONG_MAX - st) || (st < 0 && it < LONG_MIN - st));
  Value& slot = ctx.storeVariable(sv.id(), Value(Integer(it)));
  FORStatement::RT* rt = new FORStatement::RT(); rt->min = mn; rt->max = mx; rt->step = st; rt->iterator = &slot; rt->safety_bak = safe0;
  sv.safety(true);
  ctx.stackControl(f, rt);
  const Statement* nx = nullptr;
  try { nx = f->doit(ctx); } catch (...) { verif_assert(false, "C01: re-entry of FOR raises nothing"); return; }
  VX_WITNESS();
  /* exact: the next value first+-k*step would pass the limit, or the body already moved the iterator past it */
  bool would_leave = st > 0 ? (it > mx || (unsigned long)mx - (unsigned long)it < (unsigned long)st)
                            : (it < mn || (unsigned long)it - (unsigned long)mn < 0UL - (unsigned long)st);
  if (would_leave) {
    verif_assert(nx == &nextstmt && body_runs == 0, "C06: loop is left when the next value would pass the limit");
    verif_assert(ctx.topControl() == nullptr && sv.safety() == safe0, "C06: leaving releases control and restores the iterator constraint");
  } else {
    verif_assert(body_runs == 1, "C06: body runs once per re-entry");
    verif_assert(seen[0] == it + st && (st > 0 ? seen[0] <= mx : seen[0] >= mn), "C06: re-entry advances by step and never past the limit (no wrap-around)");
    if (act == 0 || act == 2) {
      verif_assert(nx == f && ctx.topControl() == f && !ctx.continueCondition() && !ctx.breakCondition(), "C06: continue / normal end keeps the loop running and clears continue");
    } else {
      verif_assert(nx == &nextstmt && ctx.topControl() == nullptr && sv.safety() == safe0, "C06: break / return leaves the loop and releases control and constraint");
      verif_assert(!ctx.breakCondition() && ctx.returnCondition() == (act == 3), "C06: break is consumed by the loop, return stays pending");
    }
  }
}

// K1c: complete runs of up to 4 iterations (step and direction are instance parameters), break at a symbolic iteration
#ifndef VX_STEP
#define VX_STEP 1
#endif
#ifndef VX_DESC
#define VX_DESC 0
#endif
extern "C" void c06_for_run()
{
  static Context ctx(1, 2);
  ctx._storage_pool.reserve(2); ctx._controlstack._stack.reserve(2);
  Symbol& sv = ctx.registerSymbol("I", Type::INTEGER);
  static FORStatement nextstmt;
  static SymExpr eb, ee, es;
  const long s = VX_STEP; const bool desc = VX_DESC;
  long b = in_long(0), n = in_long(1); bool over = in_bool(1);
  verif_assume(b > -1000000 && b < 1000000 && n >= 0 && n <= 3);
  long slack = (over && s > 1) ? 1 : 0;      /* the limit need not be hit exactly */
  long e = desc ? b - n * s - slack : b + n * s + slack;
  static Value vb{Integer(0)}, ve{Integer(0)}, vs{Integer(0)};
  *vb.integer() = b; *ve.integer() = e; *vs.integer() = s; ve.to_lvalue(true); vs.to_lvalue(true);
  eb.v = &vb; ee.v = &ve; es.v = &vs;
  int brk = in_int(0); verif_assume(brk >= 0 && brk <= 5);    /* iteration (1-based) at which the body breaks; 0: never */
  body_action[0] = brk == 1; body_action[1] = brk == 2; body_action[2] = brk == 3; body_action[3] = brk == 4; body_action[4] = brk == 5;
  FORStatement* f = mkfor(ctx, sv, &eb, &ee, &es, &nextstmt);
  const Statement* nx = f;
  try {
    nx = f->doit(ctx);
    if (nx == f) nx = f->doit(ctx);
    if (nx == f) nx = f->doit(ctx);
    if (nx == f) nx = f->doit(ctx);
    if (nx == f) nx = f->doit(ctx);
  } catch (...) { verif_assert(false, "C01: FOR run raises nothing"); return; }
  VX_WITNESS();
  int expect = (int)n + 1;
  if (brk >= 1 && brk <= expect) expect = brk;
  verif_assert(nx == &nextstmt, "C06: loop terminates and continues with the next statement");
  verif_assert(body_runs == expect, "C06: one iteration per value first, first+-step, ... inside [first, limit] (until break)");
  if (body_runs > 0) verif_assert(seen[0] == b, "C06: progression first, first+-step, ... (1)");
  if (body_runs > 1) verif_assert(seen[1] == (desc ? b - s : b + s), "C06: progression first, first+-step, ... (2)");
  if (body_runs > 2) verif_assert(seen[2] == (desc ? b - 2 * s : b + 2 * s), "C06: progression first, first+-step, ... (3)");
  if (body_runs > 3) verif_assert(seen[3] == (desc ? b - 3 * s : b + 3 * s), "C06: progression first, first+-step, ... (4)");
  verif_assert(ctx.topControl() == nullptr && !sv.safety() && !ctx.breakCondition(), "C06: control, constraint and break released after the loop");
}

// K2a: FORALLStatement::finalizeControl from an arbitrary iteration record: whatever route leaves the loop
// (end, break, return, error unstacking) goes through it; iterator type / safety / lock and the table's lock
// must be the saved ones afterwards.
/* the iterated expression: 0 the table variable itself; 1 a selection inside a variable (t.at(i), t@n: forwards the variable's symbol
 * id but is not a variable name) - doit() iterates over the variable's own storage in both cases */
#ifndef VX_FEXP
#define VX_FEXP 0
#endif
struct InsideVar : SymExpr { unsigned sid; unsigned symbolId() const override { return sid; } };
extern "C" void c06_forall_final()
{
  static Context ctx(1, 2);
  ctx._storage_pool.reserve(2); ctx._controlstack._stack.reserve(2);
  Symbol& iv = ctx.registerSymbol("I", Type::INTEGER);
  Symbol& tv = ctx.registerSymbol("T", Type(Type::INTEGER, 0, 1));
  static FORALLStatement f;
  f._var = new VariableExpression(iv);
#if VX_FEXP == 0
  f._exp = new VariableExpression(tv);
#else
  { InsideVar* iv2 = new InsideVar(); iv2->sid = tv.id(); iv2->t = Type(Type::INTEGER, 0, 1); f._exp = iv2; }
#endif
  bool it_safe = in_bool(0), it_lock = in_bool(1), ex_lock = in_bool(2);
  /* state inside the loop body as doit() set it up */
  iv.safety(true); iv.locked(ex_lock); tv.locked(true);
  static Value elem{Integer(5)};
  ctx.loadVariable(iv.id()).swap(Value(&elem).to_lvalue(true));      /* iterator is a pointer to the element */
  FORALLStatement::RT* rt = new FORALLStatement::RT();
  rt->target = &ctx.loadVariable(tv.id()); rt->index = in_long(0); rt->step = in_bool(3) ? 1 : -1;
  rt->it_type_bak = Type(Type::INTEGER); rt->it_safety_bak = it_safe; rt->it_locked_bak = it_lock; rt->ex_locked_bak = ex_lock;
  f.finalizeControl(ctx, rt);
  VX_WITNESS();
  verif_assert(iv._safety == it_safe && iv._locked == it_lock, "C06: leaving forall restores the iterator's own type-safety and read-only flags");
  verif_assert(tv._locked == ex_lock, "C06: leaving forall restores the read-only lock of the iterated table");
  Value& itv = ctx.loadVariable(iv.id());
  verif_assert(itv.isNull() && itv.type() == Type(Type::INTEGER) && itv.lvalue(), "C06: the iterator variable no longer points into the table after the loop");
  verif_assert(!elem.isNull() && *elem.integer() == 5, "C06: the table element is untouched by leaving the loop");
  Value& tab = ctx.loadVariable(tv.id());
  verif_assert(tab.type() == Type(Type::INTEGER, 0, 1), "C06/C17/C09: storage iterated in place (a variable or a selection inside one) is still owned by the variable after the loop");
}

// K2b: first entry and re-entries of forall over a table variable of 2 integers: visit order, pointer iterator,
// lock set while running and released at the end.
#ifndef VX_FORDER
#define VX_FORDER FORALLStatement::AUTO
#endif
static long fa_seen[4]; static int fa_runs = 0; static bool fa_locked_in_body[4]; static bool fa_write[4];
extern "C" void c06_forall_run()
{
  static Context ctx(1, 2);
  ctx._storage_pool.reserve(2); ctx._controlstack._stack.reserve(2);
  Symbol& iv = ctx.registerSymbol("I", Type::INTEGER);
  Symbol& tv = ctx.registerSymbol("T", Type(Type::INTEGER, 0, 1));
  long x0 = in_long(0), x1 = in_long(1);
  Collection::container_t c(2);
  c[0] = Value(Integer(x0)); c[1] = Value(Integer(x1));
  c[0].to_lvalue(true); c[1].to_lvalue(true);
  ctx.storeVariable(tv.id(), Value(new Collection(Type(Type::INTEGER, 0, 1), std::move(c))));
  static FORALLStatement f, nextstmt;
  static std::list<const Statement*> none;
  f._var = new VariableExpression(iv); f._exp = new VariableExpression(tv); f._exec = new Executable(ctx, none);
  f._order = VX_FORDER; f._next = &nextstmt;
  body_writes[0] = in_bool(0); body_newval[0] = in_long(2);
  const Statement* nx = &f;
  try {
    nx = f.doit(ctx);
    if (nx == &f) nx = f.doit(ctx);
    if (nx == &f) nx = f.doit(ctx);
  } catch (...) { verif_assert(false, "C01: forall over a table variable raises nothing"); return; }
  VX_WITNESS();
  bool desc = VX_FORDER == FORALLStatement::DESC;
  verif_assert(nx == &nextstmt && body_runs == 2, "C06: forall visits every element exactly once");
  verif_assert(seen[0] == (desc ? x1 : x0) && seen[1] == (desc ? x0 : x1), "C06: forall visits in the requested order");
  Collection* t = ctx.loadVariable(tv.id()).collection();
  long first_now = *t->at(desc ? 1 : 0).integer();
  verif_assert(first_now == (body_writes[0] ? body_newval[0] : (desc ? x1 : x0)), "C06: a write through the iterator lands in the table element");
  verif_assert(t->size() == 2 && ctx.topControl() == nullptr, "C06: table length unchanged, control released");
  verif_assert(!tv._locked && !iv._locked && !iv._safety, "C06: locks and iterator constraint released after forall");
}
