// C11-K4: the body clause of a loop statement is parsed with the loop's symbols temporarily protected (iterator type-safe, iterated
// table read-only). Whatever the body turns out to be - accepted, rejected by a parse error in any statement, empty, cut by the end
// of the text - FORStatement::parse_clause / FORALLStatement::parse_clause must leave the symbols' flags and the execution level of the
// context exactly as they were (C11: a rejected text leaves the context as it was). The token source (Parser::pop/push) and the
// statement parser (ParseStatement::statement) are harness stubs following the script VX_SCRIPT (instance parameter):
//   S separator   X a statement that parses   F a statement that raises ParseError   E the END keyword   Z end of text (pop raises)
#include <string>
#include <vector>
#include <list>
#include <memory>
#include <forward_list>
#define private public
#define protected public
#include "vx_harness.h"
#include <blocc/parser.h>
#include <blocc/parse_statement.h>
#include <blocc/statement_for.h>
#include <blocc/statement_forall.h>
#include <blocc/expression_variable.h>
#include <blocc/executable.h>
#include <blocc/tokenizer.h>
#undef private
#undef protected
#include <cstring>
using namespace vx;
#ifndef VX_SCRIPT
#define VX_SCRIPT "XFE"
#endif
#ifndef VX_LOOP
#define VX_LOOP 1       /* 0 FOR, 1 FORALL over a table variable, 2 FORALL over a temporary */
#endif
static const char* script = VX_SCRIPT; static int at = 0;
static Symbol* P_it; static Symbol* P_tab; static bool body_protected = true; static int parsed = 0; static size_t lvl_in_body = 0;
namespace bloc {
TokenPtr Parser::pop() {
  char c = script[at] ? script[at] : 'Z';
  if (c == 'Z') throw ParseError();
  if (c != 'X' && c != 'F') ++at;                 /* statements are consumed by the statement parser */
  if (c == 'S') return TokenPtr(new Token(Parser::Separator, std::string(";"), 1, 1));
  if (c == 'E') return TokenPtr(new Token(TOKEN_KEYWORD, std::string(Statement::KEYWORDS[Statement::STMT_END]), 1, 1));
  return TokenPtr(new Token(TOKEN_KEYWORD, std::string("X"), 1, 1));
}
void Parser::push(const TokenPtr&) { }
Statement* ParseStatement::statement(Parser&, Context& ctx) {
  char c = script[at++]; ++parsed; lvl_in_body = ctx.execLevel();
  if (!P_it->safety() || (P_tab && !P_tab->locked())) body_protected = false;
  if (c == 'F') throw ParseError(EXC_PARSE_INV_EXPRESSION);
  return new FORStatement();
}
int Executable::run(Context&, const std::list<const Statement*>&) { return 0; }
Executable::~Executable() { }
}
extern "C" void c11_clause()
{
  static Context ctx(1, 2);
  ctx._execstack._stack.reserve(4);
  Symbol& iv = ctx.registerSymbol("I", Type::INTEGER);
  Symbol& tv = ctx.registerSymbol("T", Type(Type::INTEGER, 0, 1));
  bool it_safe = in_bool(0), it_lock = in_bool(1), tab_lock = in_bool(2), tab_safe = in_bool(3);
  /* what the callers guarantee: FORStatement::parse registers the iterator (a read-only symbol is refused there), FORALLStatement::parse
   * refuses an iterator that is type-safe or read-only ("Cannot use a protected symbol as iterator variable") */
  verif_assume(!it_lock); if (VX_LOOP != 0) verif_assume(!it_safe);
  iv._safety = it_safe; iv._locked = it_lock; tv._locked = tab_lock; tv._safety = tab_safe;
  P_it = &iv; P_tab = (VX_LOOP == 1) ? &tv : nullptr;
  size_t lvl = ctx.execLevel();
  alignas(16) static char pbuf[sizeof(Parser)];
  Parser* p = reinterpret_cast<Parser*>(pbuf);        /* never used as an object: every Parser member the clause parser calls is a stub above */
  Executable* ex = nullptr; bool rejected = false;
#if VX_LOOP == 0
  static FORStatement st; st._var = new VariableExpression(iv);
  try { ex = FORStatement::parse_clause(*p, ctx, &st); } catch (ParseError&) { rejected = true; } catch (...) { verif_assert(false, "C01: only ParseError leaves the clause parser"); return; }
#else
  static FORALLStatement st; st._var = new VariableExpression(iv);
  static SymExpr tmp; tmp.t = Type(Type::INTEGER, 0, 1);
  st._exp = (VX_LOOP == 1) ? (Expression*)new VariableExpression(tv) : (Expression*)&tmp;
  try { ex = FORALLStatement::parse_clause(*p, ctx, &st); } catch (ParseError&) { rejected = true; } catch (...) { verif_assert(false, "C01: only ParseError leaves the clause parser"); return; }
#endif
  VX_WITNESS();
  /* expected outcome of the script */
  bool expect_ok = false; { int n = 0; bool fin = false; for (const char* c = script; *c && !fin; ++c) { if (*c == 'X') ++n; else if (*c == 'F' || *c == 'Z') fin = true; else if (*c == 'E') { expect_ok = n > 0; fin = true; } } }
  verif_assert(rejected == !expect_ok && (ex != nullptr) == expect_ok, "C11: a loop body is accepted exactly when it is a non-empty list of statements closed by END");
  verif_assert(iv._safety == it_safe && iv._locked == it_lock, "C11/C06: the iterator's type-safety and read-only flags are as before, whether the body was accepted or rejected");
  verif_assert(tv._locked == tab_lock && tv._safety == tab_safe, "C11/C06: the iterated table's read-only and type-safety flags are as before, whether the body was accepted or rejected");
  verif_assert(ctx.execLevel() == lvl, "C11/C15: the execution level of the context is as before, whether the body was accepted or rejected");
  if (parsed > 0) verif_assert(body_protected && lvl_in_body == lvl + 1, "C06: while the body is parsed the iterator is type-safe, the iterated table read-only, one level deeper");
}
