// C09 / C01 kernels on structured tables (tables of tuples, tables of tables). Receivers are built concretely (shape is
// fixed per kernel); positions, values and null flags of the ARGUMENT are symbolic. These kernels exercise the rejection
// and no-op paths, which must leave the container untouched and never crash.
#include <string>
#include <vector>
#include "vx_harness.h"
#include <blocc/collection.h>
#include <blocc/tuple.h>
#include <blocc/member/member_insert.h>
#include <blocc/member/member_put.h>
using namespace vx;

// t.insert(pos, y) on a table of tuples {integer} with y a NULL tuple value (typed, e.g. declared `y:tuple`): no-op
extern "C" void c09_insert_null_tuple()
{
  static Context& ctx = *new Context(1, 2);
  TupleDecl::Decl decl(1, Type(Type::INTEGER));
  Collection* col = new Collection(decl, 1);
  col->reserve(2);
  { Tuple::container_t items(1); items[0] = Value(Integer(in_long(0))); col->push_back(Value(new Tuple(std::move(items)))); col->at(0).to_lvalue(true); }
  Value* recv = new Value(col); recv->to_lvalue(true);
#ifndef VX_YLVAL
#define VX_YLVAL 1
#endif
  Value* y = new Value(Value::type_rowtype); y->to_lvalue(VX_YLVAL);            /* a null tuple (variable or temporary: instance parameter, keeps the null test concrete) */
  long pos = in_long(1); bool pnull = in_bool(1);
  Value* pv = new Value(Integer(pos)); if (pnull) pv->swap(Value(Value::type_integer));
  SymExpr* e0 = new SymExpr(recv); SymExpr* e1 = new SymExpr(pv); SymExpr* e2 = new SymExpr(y);
  std::vector<Expression*> margs(2); margs[0] = e1; margs[1] = e2;
  MemberINSERTExpression* m = new MemberINSERTExpression(e0, std::move(margs));
  bool thrown = false; int code = 0;
  try { m->value(ctx); } catch (RuntimeError& re) { thrown = true; code = re.no; } catch (...) { verif_assert(false, "C01: only RuntimeError may leave insert()"); return; }
  VX_WITNESS();
  if (pnull || pos < 0 || pos > 1) verif_assert(thrown && code == EXC_RT_INDEX_RANGE_S, "C09: insert() raises the index error for every out-of-range or null position");
  else verif_assert(!thrown, "C09: inserting a null tuple is accepted (nothing to insert)");
  verif_assert(recv->collection()->size() == 1 && !recv->collection()->at(0).isNull() && recv->collection()->at(0).type().major() == Type::ROWTYPE, "C09: the table of tuples is unchanged by inserting a null tuple / by a rejected insert");
}

// g.put(0, x) on a table of tables of integers [[integer]] with x an integer: must be refused, container unchanged
extern "C" void c09_put_scalar_into_2dim()
{
  static Context& ctx = *new Context(1, 2);
  Collection* inner = new Collection(Type(Type::INTEGER, 0, 1)); inner->reserve(1); inner->push_back(Value(Integer(7))); inner->at(0).to_lvalue(true);
  Collection* outer = new Collection(Type(Type::INTEGER, 0, 2)); outer->reserve(1); outer->push_back(Value(inner)); outer->at(0).to_lvalue(true);
  Value* recv = new Value(outer); recv->to_lvalue(true);
  bool xnull = in_bool(0);
  Value* x = new Value(Integer(in_long(0))); if (xnull) x->swap(Value(Value::type_integer)); x->to_lvalue(in_bool(1));
  Value* pv = new Value(Integer(0));
  SymExpr* e0 = new SymExpr(recv); SymExpr* e1 = new SymExpr(pv); SymExpr* e2 = new SymExpr(x);
  e0->t = Type();                 /* opaque at compile time (function result / parameter): only the run-time check protects the table */
  std::vector<Expression*> margs(2); margs[0] = e1; margs[1] = e2;
  MemberPUTExpression* m = new MemberPUTExpression(e0, std::move(margs));
  bool thrown = false;
  try { m->value(ctx); } catch (RuntimeError&) { thrown = true; } catch (...) { verif_assert(false, "C01: only RuntimeError may leave put()"); return; }
  VX_WITNESS();
  verif_assert(thrown, "C09: a value of the element's base type but lower dimension is refused by put() on a nested table");
  Value& el = outer->at(0);
  verif_assert(outer->size() == 1 && el.type() == Type(Type::INTEGER, 0, 1) && !el.isNull() && el.collection() == inner, "C09: every element of a [[integer]] table is still an [integer] table after the call");
}

// C05-K4: t.put(p, x) copies x when x is a variable (lvalue), whatever the receiver is - a variable or a temporary table: the argument is
// never emptied; the element receives the value; a temporary argument may be moved. Receiver / argument provenance are instance
// parameters (VX_RECV_LVAL, VX_ARG_LVAL: with symbolic flags the solver runs out of memory on the table update), the payload is symbolic.
#ifndef VX_RECV_LVAL
#define VX_RECV_LVAL 0
#endif
#ifndef VX_ARG_LVAL
#define VX_ARG_LVAL 1
#endif
extern "C" void c05_put_copy()
{
  static Context& ctx = *new Context(1, 2);
  Collection* tab = new Collection(Type(Type::INTEGER, 0, 1)); tab->reserve(2);
  tab->push_back(Value(Integer(1))); tab->push_back(Value(Integer(2))); tab->at(0).to_lvalue(true); tab->at(1).to_lvalue(true);
  Value* recv = new Value(tab); recv->to_lvalue(VX_RECV_LVAL != 0);
#ifndef VX_POS
#define VX_POS 1
#endif
  long xi = in_long(0);
  Value* x = new Value(Integer(xi)); x->to_lvalue(VX_ARG_LVAL != 0);
  const int p = VX_POS;      /* instance parameter */
  Value* pv = new Value(Integer(p));
  SymExpr* e0 = new SymExpr(recv); SymExpr* e1 = new SymExpr(pv); SymExpr* e2 = new SymExpr(x);
  std::vector<Expression*> margs(2); margs[0] = e1; margs[1] = e2;
  MemberPUTExpression* m = new MemberPUTExpression(e0, std::move(margs));
  bool thrown = false; Value* r = nullptr;
  try { r = &m->value(ctx); } catch (RuntimeError&) { thrown = true; } catch (...) { verif_assert(false, "C01: only RuntimeError may leave put()"); return; }
  VX_WITNESS();
  verif_assert(!thrown && r != nullptr, "C09: put of an integer at a valid position of an integer table succeeds");
  if (thrown || !r) return;
  verif_assert(!r->isNull() && r->type() == Type(Type::INTEGER, 0, 1) && r->collection()->size() == 2, "C09: put keeps the table's type and length");
  Value& el = r->collection()->at(p);
  verif_assert(!el.isNull() && el.type() == Value::type_integer && *el.integer() == xi, "C09: the element at the position holds the value");
  Value& other = r->collection()->at(1 - p);
  verif_assert(!other.isNull() && *other.integer() == (p == 0 ? 2 : 1), "C09: the other element is untouched");
  if (VX_ARG_LVAL) verif_assert(!x->isNull() && x->type() == Value::type_integer && *x->integer() == xi && x->lvalue(), "C05: a variable put into a table - also into a temporary one - keeps its value (put copies it)");
}
