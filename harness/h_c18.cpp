// C18 kernels.
//  c18_csv  : CSVParser::deserialize(serialize(row)) == row. The byte CLASS pattern of the row is the instance parameter
//             VX_ROW (fields separated by '|', each byte one of S separator, Q quote, N line feed, R carriage return,
//             O other); the separator and quote characters and every O byte are symbolic. Control flow (and therefore
//             every container size) is concrete, the data is not.
//  c18_utf8 : code-point indexing of the utf8 module's string on a 2-character string with symbolic positions / counts.
#include "vx_harness.h"
#include <cstring>
#include <modules/csv/csvparser.h>
#include <modules/utf8/utf8helper.h>
using namespace vx;
#ifndef VX_ROW
#define VX_ROW "O|Q"
#endif
extern "C" void c18_csv()
{
  const char* pat = VX_ROW;
  char sep = (char)in_uchar(0), quo = (char)in_uchar(1);
  verif_assume(sep != quo && sep != 0 && quo != 0 && sep != '\n' && sep != '\r' && quo != '\n' && quo != '\r' && sep != ' ' && quo != ' ');
  CSVParser::container row; row.reserve(3);
  int nf = 1; for (const char* p = pat; *p; ++p) if (*p == '|') ++nf;
  char bytes[3][4]; int len[3] = {0, 0, 0};
  { int f = 0, k = 2;
    for (const char* p = pat; *p; ++p) {
      if (*p == '|') { ++f; continue; }
      char c;
      if (*p == 'S') c = sep; else if (*p == 'Q') c = quo; else if (*p == 'N') c = '\n'; else if (*p == 'R') c = '\r';
      else { c = (char)in_uchar(k++); verif_assume(c != 0 && c != sep && c != quo && c != '\n' && c != '\r'); }
      bytes[f][len[f]++] = c;
    } }
  for (int f = 0; f < nf; ++f) { std::string s; for (int i = 0; i < len[f]; ++i) s.push_back(bytes[f][i]); row.push_back(s); }
  CSVParser csv(sep, quo);
  std::string line;
  csv.serialize(line, row);
  CSVParser::container back; back.reserve(4);
  bool more = csv.deserialize(back, line);
  VX_WITNESS();
  verif_assert(!more && !csv.in_error(), "C18: a serialised record is complete and well-formed for the parser");
  verif_assert((int)back.size() == nf, "C18: deserialising a serialised row gives the same number of fields");
  for (int f = 0; f < nf; ++f) if ((int)back.size() == nf) {
    verif_assert((int)back[f].size() == len[f], "C18: every field comes back with its length");
    for (int i = 0; i < len[f]; ++i) if ((int)back[f].size() == len[f]) verif_assert(back[f][i] == bytes[f][i], "C18: every field comes back with its content (separators, quotes, line breaks included)");
  }
}
#include <blocc/plugin_interface.h>
#define private public
#define class struct
#include <blocc/complex.h>
#undef class
#undef private
#include <blocc/plugin.h>
#include <modules/utf8/plugin_utf8.h>
// the utf8 module's methods through the real plugin entry point (UTF8Plugin::executeMethod) on a 2-character string;
// method ids VX_M_AT / VX_M_REMOVE / VX_M_SUBSTR2 are read from the enum in the current plugin_utf8.cpp by the driver
#ifndef VX_M_AT            /* only the utf8 instance passes the ids; other instances never call this entry */
#define VX_M_AT 0
#define VX_M_REMOVE 0
#define VX_M_SUBSTR2 0
#endif
extern "C" void c18_utf8()
{
  static Context ctx(1, 2);
  bloc::plugin::UTF8Plugin plug;
  utf8helper::UTF8String* u = new utf8helper::UTF8String();
  u->Reserve(4);
  u->WriteByte('a'); u->WriteByte('b');
  verif_assert(u->Size() == 2 && u->RawSize() == 2, "C18: two ASCII bytes are two characters");
  long pos = in_long(0), n = in_long(1); bool pnull = in_bool(0);
  verif_known(KF_UTF8_AT_OUT_OF_RANGE, !pnull && (pos < 0 || pos >= 2));
  Complex& obj = *new Complex(1, u);       /* a live handle (never released here) */
  SymExpr* e0 = new SymExpr(new Value(Integer(pos))); if (pnull) e0->v->swap(Value(Value::type_integer));
  SymExpr* e1 = new SymExpr(new Value(Integer(n)));
  std::vector<Expression*> a1(1); a1[0] = e0;
  std::vector<Expression*> a2(2); a2[0] = e0; a2[1] = e1;
  Value* r = nullptr; bool thrown = false;
  try { r = plug.executeMethod(obj, VX_M_AT, ctx, a1); } catch (RuntimeError&) { thrown = true; } catch (...) { verif_assert(false, "C01: only RuntimeError may leave a module method"); return; }
  VX_WITNESS();
  if (pnull || pos < 0 || pos >= 2) verif_assert(thrown, "C18: utf8 at() with a null or out-of-range position raises a BLOC error");
  else { verif_assert(!thrown && r != nullptr, "C18: utf8 at() succeeds for an in-range position");
    if (!thrown && r) verif_assert(r->type() == Value::type_integer && *r->integer() == (pos == 0 ? 'a' : 'b'), "C18: utf8 at(p) is code point p"); }
  if (!pnull) {
    thrown = false; r = nullptr;
    try { r = plug.executeMethod(obj, VX_M_SUBSTR2, ctx, a2); } catch (RuntimeError&) { thrown = true; } catch (...) { verif_assert(false, "C01: only RuntimeError may leave a module method"); return; }
    size_t expect = (pos >= 0 && pos < 2) ? ((unsigned long)n > (unsigned long)(2 - pos) ? (size_t)(2 - pos) : (size_t)n) : 0;
    verif_assert(!thrown && r != nullptr, "C18: utf8 substr() is total for non-null arguments");
    if (!thrown && r) verif_assert(r->type() == Value::type_literal && r->literal()->size() == expect, "C18: utf8 substr(pos, n) yields the in-range characters, nothing for an out-of-range position");
    thrown = false; r = nullptr;
    try { r = plug.executeMethod(obj, VX_M_REMOVE, ctx, a2); } catch (RuntimeError&) { thrown = true; } catch (...) { verif_assert(false, "C01: only RuntimeError may leave a module method"); return; }
    verif_assert(!thrown && r != nullptr, "C18: utf8 remove() is total for non-null arguments");
    if (!thrown && r) { bool rm = *r->boolean(); verif_assert(rm == (pos >= 0 && pos < 2) && u->Size() == 2 - (rm ? expect : 0), "C18: utf8 remove(pos, n) removes exactly the in-range characters"); }
  }
}

// c18_csv_ser: CSVParser::serialize of ONE field of <= 2 symbolic bytes with symbolic separator / quote against the
// quoting rule: the field is quoted iff it contains the separator, the quote or a line break; quotes are doubled.
extern "C" void c18_csv_ser()
{
  char sep = (char)in_uchar(0), quo = (char)in_uchar(1);
  verif_assume(sep != quo && sep != 0 && quo != 0);
  int len = in_int(0); verif_assume(len >= 0 && len <= 2);
  char b[2]; b[0] = (char)in_uchar(2); b[1] = (char)in_uchar(3);
  CSVParser::container row(1);
  for (int i = 0; i < 2; ++i) if (i < len) row[0].push_back(b[i]);
  CSVParser csv(sep, quo);
  std::string line;
  csv.serialize(line, row);
  VX_WITNESS();
  char e[8]; int n = 0; bool enc = false;
  for (int i = 0; i < 2; ++i) if (i < len) { if (b[i] == quo || b[i] == sep || b[i] == '\r' || b[i] == '\n') enc = true; }
  if (enc) e[n++] = quo;
  for (int i = 0; i < 2; ++i) if (i < len) { if (b[i] == quo) e[n++] = quo; e[n++] = b[i]; }
  if (enc) e[n++] = quo;
  verif_assert((int)line.size() == n, "C18: serialised field has the expected length (quotes doubled, quoted iff needed)");
  for (int i = 0; i < 6; ++i) if (i < n && (int)line.size() == n) verif_assert(line[i] == e[i], "C18: serialised field content");
}

// c18_utf8_decode: every well-formed UTF-8 sequence (RFC 3629 section 4, the table quoted in utf8helper.cpp) of VX_N bytes pushed into
// an empty utf8 string becomes exactly one character of VX_N bytes; a byte that cannot start a sequence adds nothing.
#ifndef VX_N
#define VX_N 4
#endif
static bool cont(unsigned char c) { return c >= 0x80 && c <= 0xBF; }
static bool wellformed(const unsigned char* b, int n)
{
  if (n == 1) return b[0] <= 0x7F;
  if (n == 2) return b[0] >= 0xC2 && b[0] <= 0xDF && cont(b[1]);
  if (n == 3) return ((b[0] == 0xE0 && b[1] >= 0xA0 && b[1] <= 0xBF) || (b[0] >= 0xE1 && b[0] <= 0xEC && cont(b[1])) || (b[0] == 0xED && b[1] >= 0x80 && b[1] <= 0x9F) || (b[0] >= 0xEE && b[0] <= 0xEF && cont(b[1]))) && cont(b[2]);
  return ((b[0] == 0xF0 && b[1] >= 0x90 && b[1] <= 0xBF) || (b[0] >= 0xF1 && b[0] <= 0xF3 && cont(b[1])) || (b[0] == 0xF4 && b[1] >= 0x80 && b[1] <= 0x8F)) && cont(b[2]) && cont(b[3]);
}
extern "C" void c18_utf8_decode()
{
  utf8helper::UTF8String* u = new utf8helper::UTF8String();
  u->Reserve(4);
  unsigned char b[4];
  for (int k = 0; k < VX_N; ++k) b[k] = in_uchar(k);
  bool wf = wellformed(b, VX_N);
  bool bad_lead = (b[0] >= 0x80 && b[0] <= 0xC1) || b[0] >= 0xF5;
  verif_assume(wf || (VX_N == 1 && bad_lead));
  for (int k = 0; k < VX_N; ++k) u->WriteByte((char)b[k]);
  VX_WITNESS();
  if (wf) verif_assert(u->Size() == 1 && u->RawSize() == (size_t)VX_N, "C18: a well-formed UTF-8 sequence (RFC 3629) is one character of as many bytes - none is dropped");
  else verif_assert(u->Size() == 0 && u->RawSize() == 0, "C18: a byte that cannot start a UTF-8 sequence adds nothing");
}
