// C01-K2: the typed accessors of Value (blocc/value.h) - the one place that turns a payload pointer into a typed pointer. For a value of
// ANY type (major type, number of dimensions and tuple / module id symbolic; null or holding an integer payload where that is its type),
// each accessor either raises its RuntimeError or hands out the payload, and it hands it out only when the value really is a scalar of
// that type (collection(): only when it has dimensions). Evaluation nodes rely on this instead of re-testing the type.
#include "vx_harness.h"
using namespace vx;
template <class F> static int probe(F f) { try { f(); return 1; } catch (RuntimeError&) { return 0; } catch (...) { return 2; } }
extern "C" void c01_accessors()
{
  int mj = in_int(0); verif_assume(mj >= 0 && mj <= 9);          /* every TypeMajor */
  unsigned lv = in_uchar(0); verif_assume(lv <= 3);
  unsigned mn = in_uchar(1);
  Type t((Type::TypeMajor)mj, (Type::TypeMinor)mn, (Type::TypeLevel)lv);
  Value v(t);                                                     /* a null of that type */
  bool holds = in_bool(0);
  if (holds && mj == Type::INTEGER && lv == 0) v.swap(Value(Integer(in_long(0))));
  bool isnull = v.isNull();
  int rb = probe([&]{ Bool* p = v.boolean(); verif_assert((p == nullptr) == isnull, "C01: boolean() yields the payload, NULL exactly for a null"); });
  int ri = probe([&]{ Integer* p = v.integer(); verif_assert((p == nullptr) == isnull, "C01: integer() yields the payload, NULL exactly for a null"); });
  int rd = probe([&]{ Numeric* p = v.numeric(); verif_assert((p == nullptr) == isnull, "C01: numeric() yields the payload, NULL exactly for a null"); });
  int rm = probe([&]{ v.imaginary(); });
  int rs = probe([&]{ v.literal(); });
  int rt = probe([&]{ v.tabchar(); });
  int rc = probe([&]{ v.collection(); });
  int ru = probe([&]{ v.tuple(); });
  int ro = probe([&]{ v.complex(); });
  int rp = probe([&]{ v.value(); });
  VX_WITNESS();
  verif_assert(rb != 2 && ri != 2 && rd != 2 && rm != 2 && rs != 2 && rt != 2 && rc != 2 && ru != 2 && ro != 2 && rp != 2, "C01: a typed accessor raises RuntimeError and nothing else");
  bool scalar = (lv == 0);
  verif_assert((rb == 1) == (scalar && mj == Type::BOOLEAN), "C01: boolean() succeeds exactly on a scalar boolean (a table of booleans is not a boolean)");
  verif_assert((ri == 1) == (scalar && mj == Type::INTEGER), "C01: integer() succeeds exactly on a scalar integer");
  verif_assert((rd == 1) == (scalar && mj == Type::NUMERIC), "C01: numeric() succeeds exactly on a scalar decimal");
  verif_assert((rm == 1) == (scalar && mj == Type::IMAGINARY), "C01: imaginary() succeeds exactly on a scalar complex number");
  verif_assert((rs == 1) == (scalar && mj == Type::LITERAL), "C01: literal() succeeds exactly on a scalar string (a table of strings is not a string)");
  verif_assert((rt == 1) == (scalar && mj == Type::TABCHAR), "C01: tabchar() succeeds exactly on a scalar bytes value");
  verif_assert((ru == 1) == (scalar && mj == Type::ROWTYPE), "C01: tuple() succeeds exactly on a scalar tuple");
  verif_assert((ro == 1) == (scalar && mj == Type::COMPLEX), "C01: complex() succeeds exactly on a scalar object");
  verif_assert((rp == 1) == (scalar && mj == Type::POINTER), "C01: value() succeeds exactly on a pointer");
  verif_assert((rc == 1) == !scalar, "C01: collection() succeeds exactly on a value with dimensions");
}
