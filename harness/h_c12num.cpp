// C12-K4: a decimal constant is written back as ONE decimal token of the scanner's grammar (tokenizer.lex: DOUBLE / FLOAT), whatever
// the rendering of its value looks like. The rendering (%.16g, cut) is an arbitrary text of the %.16g output grammar with the shape
// given by the instance parameter VX_SHAPE; its digits, exponent sign and exponent digits are symbolic.
//   0 "D"   1 "DD"   2 "D.D"   3 "DeSXX"   4 "D.DeSXX"   5 "DeSXXX"   6 "D.DDeSXX"
// (leading digit 1..4 so that the text is also what the C library prints for the number the text denotes: native replay)
#include "vx_harness.h"
#include <blocc/expression_numeric.h>
#include <cstring>
using namespace vx;
#ifndef VX_SHAPE
#define VX_SHAPE 3
#endif
static const char* SHAPES[] = { "D", "DD", "D.D", "DeSXX", "D.DeSXX", "DeSXXX", "D.DDeSXX" };
static bool isdig(char c) { return c >= '0' && c <= '9'; }
/* tokenizer.lex: D1 = DIGIT+ . DIGIT+ ; D2 = . DIGIT+ ; DOUBLE = D1|D2 ; FLOAT = (DIGIT+|DOUBLE) [eE][+-]? DIGIT+ : one whole token, and not INTEGER */
static bool decimal_token(const std::string& t)
{
  size_t n = t.size(), i = 0, d1 = 0, d2 = 0, d3 = 0; bool dot = false, ex = false;
  for (int g = 0; g < 16; ++g) if (i < n && isdig(t[i])) { ++i; ++d1; }
  if (i < n && t[i] == '.') { dot = true; ++i; for (int g = 0; g < 16; ++g) if (i < n && isdig(t[i])) { ++i; ++d2; } }
  if (i < n && (t[i] == 'e' || t[i] == 'E')) { ex = true; ++i; if (i < n && (t[i] == '+' || t[i] == '-')) ++i; for (int g = 0; g < 16; ++g) if (i < n && isdig(t[i])) { ++i; ++d3; } }
  if (i != n) return false;
  if (dot ? d2 == 0 : d1 == 0) return false;
  if (ex && d3 == 0) return false;
  return dot || ex;
}
extern "C" void c12_numconst()
{
  const char* shape = SHAPES[VX_SHAPE]; const int L = (int)std::strlen(shape);
  char text[16]; int k = 0; bool lead = true; int expdig = 0; char expsign = '+'; int expval = 0;
  for (int i = 0; i < L; ++i) {
    char c = shape[i];
    if (c == 'D' || c == 'X') {
      unsigned char d = in_uchar(k++); verif_assume(d >= '0' && d <= '9');
      if (lead) { verif_assume(d >= '1' && d <= '4'); lead = false; }
      if (c == 'X') { expval = expval * 10 + (d - '0'); ++expdig; }
      text[i] = (char)d;
    } else if (c == 'S') { bool neg = in_bool(0); expsign = neg ? '-' : '+'; text[i] = expsign; }
    else text[i] = c;
  }
  text[L] = 0;
  /* what %.16g can print: no trailing zero in the fraction, exponent form only below 1e-4 or from 1e16, exponent without superfluous leading zero */
  if (std::strchr(shape, '.')) { const char* p = std::strchr(text, '.'); const char* e = std::strchr(text, 'e'); const char* last = (e ? e : text + L) - 1; verif_assume(*last != '0'); (void)p; }
  if (expdig) { verif_assume(expsign == '-' ? expval >= 5 : expval >= 16); verif_assume(expdig == 2 ? expval <= 99 : (expval >= 100 && expval <= 300)); }
  vx_set_numtext(text, L);
  Numeric d = vx_num_of_text(text);
  Context ctx;
  NumericExpression* ne = new NumericExpression(d);
  std::string rendering = Value::readableNumeric(d);
  std::string out = ne->unparse(ctx);
  VX_WITNESS();
  verif_assert(decimal_token(out), "C12: a decimal constant is written back as one decimal token of the scanner (DOUBLE or FLOAT)");
  verif_assert(out == rendering || out == rendering + ".0", "C12: a decimal constant is written back as the rendering of its value, completed by .0 when that reads as an integer");
}
