// C16 kernels: module permissions.
//  c16_ctor   : ComplexCTORExpression::parse - a constructor node is only ever produced when the context is trusted
//               or the module's name is currently granted (after any grant / clear / grant history).
//  c16_import : IMPORTStatement::parse - an untrusted context can only import by keyword name, never by path expression.
//  c16_flags  : the trusted flag is inherited by clones and child contexts and touched by nothing else.
// The token source (Parser::front/pop), ParseExpression::expression / typeChecking are harness stubs returning arbitrary results.
#include <string>
#include <vector>
#include <list>
#include <memory>
#define private public
#define protected public
#include "vx_harness.h"
#include <blocc/parser.h>
#include <blocc/parse_expression.h>
#include <blocc/expression_complex_ctor.h>
#define class struct
#include <blocc/statement_import.h>
#undef class
#include <blocc/plugin_manager.h>
#include <blocc/tokenizer.h>
#undef private
#undef protected
using namespace vx;
static int tok_calls = 0; static bool expr_called = false; static bool import_reached = false;
static TokenPtr mktok(int slot) {
  int c = in_int(slot); verif_assume(c == '(' || c == ')' || c == ',' || c == 'x' || c == TOKEN_KEYWORD);
  if (tok_calls > 4) c = ')';             /* bound: at most two arguments are listed */
#ifdef VX_GATE
  c = 'x';                                /* gate kernel: the text after the module name is not a call: parse stops right after the permission test */
#endif
  return TokenPtr(new Token(c, std::string("t"), 1, 1));
}
namespace bloc {
TokenPtr Parser::front() { ++tok_calls; return mktok(8 + (tok_calls & 7)); }
TokenPtr Parser::pop() { ++tok_calls; return mktok(8 + (tok_calls & 7)); }
Expression* ParseExpression::expression(Parser&, Context&) { expr_called = true; SymExpr* e = new SymExpr(new Value(Integer(1))); e->t = in_bool(20) ? Type(Type::LITERAL) : Type(Type::INTEGER); return e; }
bool ParseExpression::typeChecking(Expression*, const Type&, Parser&, Context&) { return in_bool(21); }
}
static char modname[3]; static char g1[3], g2[3];
static bool eq(const char* a, const char* b) { return a[0] == b[0] && (a[0] == 0 || (a[1] == b[1])); }
extern "C" void c16_ctor()
{
  static Context ctx(1, 2);
  PluginManager& pm = PluginManager::instance();
  pm._modules.reserve(2); pm._trustedPluginNames.reserve(2);
  /* module 1: arbitrary 1..2 byte name, one constructor taking one argument */
#ifdef VX_MOD
  { const char* mn = VX_MOD; modname[0] = mn[0]; modname[1] = mn[1]; modname[2] = 0; }     /* names are instance parameters */
#else
  modname[0] = (char)in_uchar(0); modname[1] = (char)in_uchar(1); modname[2] = 0; verif_assume(modname[0] != 0);
#endif
  static PLUGIN_TYPE argt = { "I", 0 };
  static PLUGIN_CTOR ctor; ctor.id = 0; ctor.args_count = 1; ctor.args = &argt;
  PLUGGED_MODULE m; m.interface.name = modname; m.interface.ctors_count = 1; m.interface.ctors = &ctor; m.interface.method_count = 0; m.interface.methods = nullptr;
  m.instance = nullptr; m.dlhandle = nullptr;
  pm._modules.push_back(m);
  /* grant history: unban(g1)? ; clear? ; unban(g2)? */
#ifdef VX_MOD
  { const char* a = VX_G1; const char* b = VX_G2; g1[0] = a[0]; g1[1] = a[1]; g1[2] = 0; g2[0] = b[0]; g2[1] = b[1]; g2[2] = 0; }
#else
  g1[0] = (char)in_uchar(2); g1[1] = (char)in_uchar(3); g1[2] = 0; g2[0] = (char)in_uchar(4); g2[1] = (char)in_uchar(5); g2[2] = 0;
  verif_assume(g1[0] != 0 && g2[0] != 0);
#endif
#ifdef VX_HIST
  /* the grant history is an instance parameter (a symbolic vector length makes every later string access a symbolic-offset update) */
  bool do1 = (VX_HIST & 1) != 0, clr = (VX_HIST & 2) != 0, do2 = (VX_HIST & 4) != 0, trusted = in_bool(3);
#else
  bool do1 = in_bool(0), clr = in_bool(1), do2 = in_bool(2), trusted = in_bool(3);
#endif
  if (do1) pm.unbanPlugin(g1);
  if (clr) pm.clearPermissions();
  if (do2) pm.unbanPlugin(g2);
  bool granted = (do1 && !clr && eq(g1, modname)) || (do2 && eq(g2, modname));
  ctx.trusted(trusted);
  alignas(16) static char pbuf[sizeof(Parser)]; Parser& p = *reinterpret_cast<Parser*>(pbuf);
  ComplexCTORExpression* e = nullptr; bool rejected = false; int pno = 0;
#ifdef VX_NOPARSE
  VX_WITNESS();
  verif_assert(pm.bannedPlugin(modname) == !granted, "C16: granted set = names granted since the last clear");
  return;
#endif
  try { e = ComplexCTORExpression::parse(p, ctx, 1); }
  catch (ParseError& pe) { rejected = true; pno = pe.no; }
  catch (...) { verif_assert(false, "C01: only ParseError may leave a parse function"); return; }
  VX_WITNESS();
  if (e != nullptr) verif_assert(trusted || granted, "C16: an untrusted context obtains a constructor node only for a currently granted module");
  if (!trusted && !granted) verif_assert(rejected && e == nullptr && !expr_called, "C16: restricted module is refused before any argument is parsed");
  verif_assert(pm.bannedPlugin(modname) == !granted, "C16: granted set = names granted since the last clear");
#ifdef VX_GATE
  verif_assert(rejected && ((!trusted && !granted) ? pno == EXC_PARSE_OTHER_S : pno == EXC_PARSE_INV_EXPRESSION), "C16: the permission test is the first thing a constructor call goes through, and only restricted modules are refused by it");
#endif
  (void)pno;
}
extern "C" void c16_import()
{
  static Context ctx(1, 2);
  bool trusted = in_bool(3);
  ctx.trusted(trusted);
  alignas(16) static char pbuf[sizeof(Parser)]; Parser& p = *reinterpret_cast<Parser*>(pbuf);
  IMPORTStatement* s = nullptr; bool rejected = false;
  try { s = IMPORTStatement::parse(p, ctx); }
  catch (ParseError&) { rejected = true; }
  catch (...) { verif_assert(false, "C01: only ParseError may leave a parse function"); return; }
  VX_WITNESS();
  if (!trusted) {
    verif_assert(!expr_called, "C16: an untrusted context never evaluates an import path expression");
    if (s != nullptr) verif_assert(s->_exp == nullptr, "C16: an untrusted context can import by module name only");
  }
  (void)rejected;
}
extern "C" void c16_flags()
{
  static Context root(1, 2);
  bool trusted = in_bool(0), other = in_bool(1);
  /* from any earlier setting (a host that trusted its own set-up and then drops the privilege, or the reverse) */
  unsigned char pre = in_uchar(2); root._flags = pre;
  root.trusted(trusted);
  verif_assert(root.trusted() == trusted, "C16: trusted(b) leaves the context trusted exactly when b is true, whatever it was before");
  verif_assert((unsigned char)(root._flags & ~Context::FLAG_TRUSTED) == (unsigned char)(pre & ~Context::FLAG_TRUSTED), "C16: trusted(b) changes no other setting");
  int before = root._flags;
  root.trace(other);
  verif_assert(root.trusted() == trusted && root._flags == before, "C16: the trusted flag is changed by trusted() only");
  Context* shell = root.createChildShell(root);
  Context* rt = root.createChildRuntime(root, 1);
  Context* cl = root.clone();
  VX_WITNESS();
  verif_assert(shell->trusted() == trusted && rt->trusted() == trusted && cl->trusted() == trusted, "C16: clones and child contexts inherit the trusted flag");
  root.trusted(!trusted);
  verif_assert(root.trusted() == !trusted, "C16: the setting can be reversed (a trusted context can be made untrusted again)");
  verif_assert(cl->trusted() == trusted, "C16: a clone keeps its own flag afterwards");
  cl->trusted(!trusted);
  verif_assert(cl->trusted() == !trusted && root.trusted() == !trusted, "C16: a clone of a trusted template can be untrusted on its own");
}
