// C19-K4: PRINTStatement::doit / PUTStatement::doit - what a program prints goes to the output stream of the context that executes it
// (the --out file or standard output of the command, the stream given to the library), in argument order, as the library's rendering of
// each value, print adding one line end; nothing goes to the standard output of the process behind the context's back.
// Kinds and nullness of the two arguments are instance parameters; payloads and lvalue flags are symbolic.
#include <string>
#include <vector>
#include <list>
#include <memory>
#define private public
#define protected public
#include "vx_harness.h"
#include <blocc/statement.h>
#define class struct
#include <blocc/statement_print.h>
#include <blocc/statement_put.h>
#undef class
#undef private
#undef protected
using namespace vx;
#ifndef VX_K0
#define VX_K0 K_INTEGER
#endif
#ifndef VX_K1
#define VX_K1 K_LITERAL
#endif
#ifndef VX_N0
#define VX_N0 0      /* argument 0 is a typed null of its kind (instance parameter: with a symbolic null flag the type switch of print is
                        explored for every type, including the byte dumps) */
#endif
#ifndef VX_N1
#define VX_N1 0
#endif
#ifndef VX_STMT
#define VX_STMT PRINTStatement
#define VX_EOL 1
#endif
struct Arg { int kind; bool isnull, lval, b; long i; double d; std::string s; Value* v; SymExpr* e; std::string text; };
static void mkarg(Arg& a, int kind, int k)
{
  a.kind = kind; a.isnull = (k == 0 ? VX_N0 : VX_N1) != 0; a.lval = in_bool(4 * k + 1); a.b = in_bool(4 * k + 2); a.i = in_long(k); a.d = in_double(k);
  switch (kind) {
  case K_BOOLEAN: a.v = new Value(Bool(a.b)); if (a.isnull) a.v->swap(Value(Value::type_boolean)); a.text = Value::readableBoolean(a.b); break;
  case K_INTEGER: a.v = new Value(Integer(a.i)); if (a.isnull) a.v->swap(Value(Value::type_integer)); a.text = Value::readableInteger(a.i); break;
  case K_NUMERIC: a.v = new Value(Numeric(a.d)); if (a.isnull) a.v->swap(Value(Value::type_numeric)); a.text = Value::readableNumeric(a.d); break;
  case K_LITERAL: { int n = in_int(k); verif_assume(n >= 0 && n <= 2); for (int j = 0; j < 2; ++j) if (j < n) { unsigned char c = in_uchar(2 * k + j); verif_assume(c != 0); a.s.push_back((char)c); }
                    a.v = new Value(new Literal(a.s)); if (a.isnull) a.v->swap(Value(Value::type_literal)); a.text = a.s; break; }
  default: a.v = new Value(); a.isnull = true; break;
  }
  if (a.isnull) a.text = VX_EOL ? Value::STR_NIL : "";      /* print shows a null as its name, put writes nothing for it */
  a.v->to_lvalue(a.lval);
  a.e = new SymExpr(a.v);
}
extern "C" void c19_print()
{
  FILE* sink = (FILE*)vx_io_new();
  Context ctx(::fileno(sink), 2);
  static Arg a0, a1; mkarg(a0, VX_K0, 0); mkarg(a1, VX_K1, 1);
  static VX_STMT st, nextstmt; st._next = &nextstmt;
  st._args.push_back(a0.e); st._args.push_back(a1.e);
  const Statement* nx = nullptr;
  vx_io_begin();
  try { nx = st.doit(ctx); } catch (...) { long ignore = vx_io_end(); (void)ignore; verif_assert(false, "C01: printing scalar values raises nothing"); return; }
  long on_stdout = vx_io_end();
  VX_WITNESS();
  std::string expect = a0.text + a1.text; if (VX_EOL) expect.push_back('\n');
  verif_assert(nx == &nextstmt, "C19: print continues with the next statement");
  verif_assert(on_stdout == 0, "C19: what a program prints goes to the output of its context, nothing to the standard output of the process");
  verif_assert(vx_io_written(ctx.ctxout()) == (long)expect.size(), "C19: print writes the renderings of its arguments in order (length)");
  char buf[32]; long m = vx_io_text(ctx.ctxout(), buf, 24);
  bool same = (m == (long)(expect.size() < 24 ? expect.size() : 24));
  for (long k = 0; k < 24; ++k) if (k < m && same && buf[k] != expect[(size_t)k]) same = false;
  verif_assert(same, "C19: print writes the renderings of its arguments in order (text)");
  verif_assert(a0.e->evals == 1 && a1.e->evals == 1, "C19: every argument is evaluated exactly once");
  verif_assert(a0.v->isNull() == a0.isnull && a1.v->isNull() == a1.isnull && a0.v->lvalue() == a0.lval && a1.v->lvalue() == a1.lval, "C05: printing does not change its arguments");
}
