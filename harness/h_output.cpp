// C19-K3: output() of apps/main.cpp - the function that prints the value returned by the program on the selected output.
// The whole source file of the command is included (main renamed), so the static function is the real one.
// Decided, per kind of returned value (instance parameter) and for every payload: the text goes to the stream of the context
// (the --out file or standard output, whatever the context was built on) and nowhere else; it is exactly the library's rendering of
// the value; nothing is printed when the program returned nothing or a value that has no printable form; the status is "ok".
#define main bloc_app_main
#include <apps/main.cpp>
#undef main
#include "vx_harness.h"
#include <blocc/tuple.h>
using namespace vx;
void cli_parser(const MainOptions&, const std::vector<std::string>&) { }      /* interactive mode: not part of this kernel */
#ifndef VX_RET
#define VX_RET 2
#endif
/* VX_RET: 0 nothing returned, 1 boolean, 2 integer, 3 decimal, 4 string, 6 complex number, 7 table, 8 null (untyped), 9 typed null integer, 10 bytes */
extern "C" void c19_output()
{
  FILE* sink = (FILE*)vx_io_new();
  Context ctx(::fileno(sink), 2);
  std::string expect; bool printable = true;
#if VX_RET == 1
  Bool b = in_bool(0); Value v(b); expect = Value::readableBoolean(b);
#elif VX_RET == 2
  Integer i = in_long(0); Value v(i); expect = Value::readableInteger(i);
#elif VX_RET == 3
  Numeric d = in_double(0); Value v(d); expect = Value::readableNumeric(d);
#elif VX_RET == 4
  std::string s; int n = in_int(0); verif_assume(n >= 0 && n <= 3); for (int k = 0; k < 3; ++k) if (k < n) { unsigned char c = in_uchar(k); verif_assume(c != 0); s.push_back((char)c); }
  Value v(new Literal(s)); expect = s;
#elif VX_RET == 6
  Imaginary im{in_double(0), in_double(1)}; Value v(new Imaginary(im)); expect = Value::readableImaginary(im);
#elif VX_RET == 7
  Collection* c = new Collection(Value::type_integer.levelUp()); c->push_back(Value(Integer(in_long(0)))); Value v(c); printable = false;
#elif VX_RET == 8
  Value v; expect = Value::STR_NIL;
#elif VX_RET == 9
  Value v(Value::type_integer); expect = Value::STR_NIL;
#elif VX_RET == 10
  Value v(new TabChar(2, (char)in_uchar(0))); printable = false;
#endif
#if VX_RET != 0
  ctx.saveReturned(v);
#else
  printable = false;
#endif
  vx_io_begin();
  bool ok = output(ctx);
  long on_stdout = vx_io_end();
  VX_WITNESS();
  verif_assert(ok, "C19: printing the returned value succeeds");
  verif_assert(on_stdout == 0, "C19: the returned value is written to the selected output, nothing of it to the standard output of the process");
  long w = vx_io_written(ctx.ctxout());
  if (!printable) { verif_assert(w == 0, "C19: nothing is printed when the program returned nothing / a value without printable form"); return; }
  verif_assert(w == (long)expect.size(), "C19: exactly the rendering of the returned value is printed (length)");
  char buf[32]; long m = vx_io_text(ctx.ctxout(), buf, 24);
  bool same = (m == (long)(expect.size() < 24 ? expect.size() : 24));
  for (long k = 0; k < 24; ++k) if (k < m && same && buf[k] != expect[(size_t)k]) same = false;
  verif_assert(same, "C19: exactly the rendering of the returned value is printed (text)");
  verif_assert(ctx.dropReturned() == nullptr, "C19: the returned value is consumed by printing it");
}
