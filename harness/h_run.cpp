// C06/C07-K4: the real statement loop Executable::run with the real Statement::execute, Context::onRuntimeError and
// Context::unstackControl. The statements are scripted steps of the harness (what each does is symbolic: nothing, break, continue,
// return, raise a BLOC error); two loops are on the control stack, one started outside the running block (level below the execution
// level), one inside it (their levels are instance parameters: the size of the control stack after the error stays concrete). Decided: statements run in list order and none after a stop condition; a pending
// return runs nothing; an error leaves through run() unchanged after the loops started at or inside the current level were unstacked
// (each finalised exactly once, innermost first), the outer ones kept, and the temporaries purged.
#include <string>
#include <vector>
#include <list>
#include <memory>
#define private public
#define protected public
#include "vx_harness.h"
#include <blocc/statement.h>
#include <blocc/executable.h>
#undef private
#undef protected
using namespace vx;
static int nrun = 0; static int ran_at[4] = { -1, -1, -1, -1 }; static Value* tmp_of_failed = nullptr;
struct Step : Statement {
  int id; int action;       /* 0 nothing, 1 break, 2 continue, 3 return, 4 raise */
  Step() : Statement(STMT_NOP), id(0), action(0) {}
  const Statement* doit(Context& ctx) const override {
    ran_at[id] = nrun++;
    if (action == 1) ctx.breakCondition(true); else if (action == 2) ctx.continueCondition(true); else if (action == 3) ctx.returnCondition(true);
    else if (action == 4) { tmp_of_failed = &ctx.allocate(Value(Integer(9))); throw RuntimeError(EXC_RT_DIVIDE_BY_ZERO); }      /* fails with a temporary in use */
    return _next;
  }
};
static int nfinal = 0; static int final_at[3] = { -1, -1, -1 };
struct Loop : Controller {
  int id;
  Loop() : Controller(STMT_WHILE), id(0) {}
  void finalizeControl(Context&, void*) const override { final_at[id] = nfinal++; }
  /* as a statement of the list (script digit 5): a loop that takes the control and fails during its very first iteration */
  const Statement* doit(Context& ctx) const override;
};
const Statement* Loop::doit(Context& ctx) const { ran_at[3] = nrun++; ctx.stackControl(this, nullptr); tmp_of_failed = &ctx.allocate(Value(Integer(9))); throw RuntimeError(EXC_RT_DIVIDE_BY_ZERO); }
extern "C" void c07_run()
{
  static Context ctx(1, 2);
  ctx._controlstack._stack.reserve(4); ctx._execstack._stack.reserve(6);
  static Step s0, s1, s1b, s2; s0.id = 0; s1.id = 1; s1b.id = 2; s2.id = 3;
  s1._next = &s1b;                                  /* a statement chain inside the list */
  /* what each step does is the instance parameter VX_ACTS (one digit per step s0 s1 s1b s2: 0 nothing 1 break 2 continue 3 return
     4 raise, 5 (last step only) a loop that takes the control and fails in its first iteration): with symbolic actions the sizes of the control stack and of the pool depend on solver variables and the SAT back end
     runs out of memory (15 GB). Symbolic: whether a return is already pending at entry. */
#ifndef VX_ACTS
#define VX_ACTS "0040"
#endif
  s0.action = VX_ACTS[0] - '0'; s1.action = VX_ACTS[1] - '0'; s1b.action = VX_ACTS[2] - '0'; s2.action = VX_ACTS[3] - '0';
  static Loop lstep; lstep.id = 2; const bool loopstep = (VX_ACTS[3] == '5');
  static std::list<const Statement*> prog; prog.push_back(&s0); prog.push_back(&s1); if (loopstep) prog.push_back(&lstep); else prog.push_back(&s2);
  /* execution level of the running block: 2 enclosing blocks */
  static Step blk1, blk2; ctx.execBegin(&blk1); ctx.execBegin(&blk2);
  size_t lvl = ctx.execLevel();
  static Loop outer, inner; outer.id = 0; inner.id = 1;
#ifndef VX_LO
#define VX_LO 1
#define VX_LI 2
#endif
  const unsigned lo = VX_LO, li = VX_LI;              /* instance parameters (loops are stacked in the order they were entered: lo <= li) */
  outer._level = lo; inner._level = li;
  ctx.stackControl(&outer, nullptr); ctx.stackControl(&inner, nullptr);
  bool pending_return = in_bool(0); if (pending_return) ctx.returnCondition(true);
  ctx.allocate(Value(Integer(7))); ctx._temporary_storage.clear();      /* the pool of temporaries has one slot (its size stays concrete) */
  bool thrown = false; int code = -1;
  try { Executable::run(ctx, prog); }
  catch (RuntimeError& re) { thrown = true; code = re.no; }
  catch (...) { verif_assert(false, "C01: only BLOC errors leave the statement loop"); return; }
  VX_WITNESS();
  /* reference: which steps run, in which order */
  int expect[4] = { -1, -1, -1, -1 }; int n = 0; bool stop = pending_return, raised = false;
  if (!stop) {
    expect[0] = n++; if (s0.action == 4) raised = true; else if (s0.action != 0) stop = true;
    if (!raised && !stop) {
      expect[1] = n++; if (s1.action == 4) raised = true;
      if (!raised) { expect[2] = n++; if (s1b.action == 4) raised = true; }        /* the chain of one list entry runs to its end */
      if (!raised && (s1.action != 0 || s1b.action != 0)) stop = true;
      if (!raised && !stop) { expect[3] = n++; if (s2.action == 4 || loopstep) raised = true; }
    }
  }
  for (int k = 0; k < 4; ++k) verif_assert(ran_at[k] == expect[k], "C06: statements run in list order, a chain to its end, and none after a break / continue / return or with a return pending");
  verif_assert(thrown == raised && (!thrown || code == EXC_RT_DIVIDE_BY_ZERO), "C07: an error raised by a statement leaves the statement loop unchanged, nothing else does");
  verif_assert(ctx.execLevel() == lvl, "C07: the statement loop does not change the execution level");
  if (thrown) {
    bool drop_inner = li >= lvl, drop_outer = lo >= lvl;
    const int base = (loopstep && ran_at[3] >= 0) ? 1 : 0;
    if (base) verif_assert(final_at[2] == 0, "C07/C06: a loop that fails during its very first iteration is unstacked and finalised like any other (its level is known from the moment it takes the control)");
    verif_assert((final_at[1] >= 0) == drop_inner && (final_at[0] >= 0) == drop_outer, "C07: an error unstacks exactly the loops started at or inside the current execution level, each finalised once");
    if (drop_inner && drop_outer) verif_assert(final_at[1] == base && final_at[0] == base + 1, "C07: loops are finalised innermost first");
    verif_assert(ctx.topControl() == (drop_outer ? (const Controller*)nullptr : drop_inner ? (const Controller*)&outer : (const Controller*)&inner), "C07: loops started outside the current level keep the control");
    verif_assert(ctx._temporary_storage.count() == 0 && tmp_of_failed != nullptr && tmp_of_failed->isNull(), "C07: temporaries of the interrupted statement are purged");
  } else {
    verif_assert(final_at[0] < 0 && final_at[1] < 0 && ctx.topControl() == &inner, "C06: without an error the statement loop leaves the control stack alone");
  }
}
