// C09 kernels.
//  c09_tuple_id: TupleDecl::Decl::make_type is what tells tuple types apart (table-of-tuple uniformity,
//  put / insert / concat type tests compare this id): two different item-type lists must get different ids.
#include <string>
#include <vector>
#define private public
#define protected public
#include "vx_harness.h"
#include <blocc/tuple_decl.h>
#include <blocc/tuple.h>
#include <blocc/collection.h>
#undef private
#undef protected
using namespace vx;
#ifndef VX_L1
#define VX_L1 1
#endif
#ifndef VX_L2
#define VX_L2 2
#endif
static Type::TypeMajor pick_major(int slot)
{
  /* scalar item types a script can put in a tuple: boolean, integer, decimal, string, bytes, complex */
  int k = in_int(slot); verif_assume(k >= 0 && k < 6);
  static const Type::TypeMajor M[6] = { Type::BOOLEAN, Type::INTEGER, Type::NUMERIC, Type::LITERAL, Type::TABCHAR, Type::IMAGINARY };
  return M[k];
}
extern "C" void c09_tuple_id()
{
  TupleDecl::Decl a(VX_L1, Type(Type::INTEGER)), b(VX_L2, Type(Type::INTEGER));
  bool differ = VX_L1 != VX_L2;
  for (int i = 0; i < VX_L1; ++i) a[i] = Type(pick_major(i));
  for (int i = 0; i < VX_L2; ++i) { b[i] = Type(pick_major(8 + i)); if (i < VX_L1 && !(b[i] == a[i])) differ = true; }
  verif_assume(differ);
  verif_known(KF_TUPLE_TYPE_ID_COLLISION, VX_L1 + VX_L2 >= 7);
  Type ta = a.make_type(0), tb = b.make_type(0);
  VX_WITNESS();
  verif_assert(ta.major() == Type::ROWTYPE && tb.major() == Type::ROWTYPE && ta.level() == 0, "C09: tuple type has major ROWTYPE at the requested level");
  verif_assert(!(ta == tb), "C09: different tuple structures have different type ids");
  Type ta2 = a.make_type(0);
  verif_assert(ta2 == ta, "C09: the id of a structure is stable");
}
