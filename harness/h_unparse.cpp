// C12-K5: statement headers are written back with every clause the source had. FORStatement::unparse / FORALLStatement::unparse write
// to a stream (observable stream model); the expected text is built from the grammar of the reference manual:
//   for <var> in <begin> to <end> [step <s>] [asc|desc] loop        forall <var> in <table> [asc|desc] loop
// A dropped `asc` changes what a reloaded program does (for ... asc does not count down when end < begin), a dropped step or desc too.
// Instance parameters: statement, direction keyword, presence of a step. The body is empty (Executable::unparse of no statements).
#include <string>
#include <vector>
#include <list>
#include <memory>
#define private public
#define protected public
#include "vx_harness.h"
#include <blocc/statement_for.h>
#include <blocc/statement_forall.h>
#include <blocc/expression_variable.h>
#include <blocc/executable.h>
#undef private
#undef protected
using namespace vx;
#ifndef VX_FORALL
#define VX_FORALL 0
#endif
#ifndef VX_DIR
#define VX_DIR 1        /* 0 none, 1 asc, 2 desc */
#endif
#ifndef VX_STEP
#define VX_STEP 1
#endif
struct Named : SymExpr { char nm; std::string unparse(Context&) const override { return std::string(1, nm); } };
static std::list<const Statement*> L_none;
extern "C" void c12_header()
{
  static Context ctx(1, 2);
  ctx._execstack._stack.reserve(4);
  Symbol& iv = ctx.registerSymbol("I", Type::INTEGER);
  FILE* out = (FILE*)vx_io_new();
  static Named b, e, s, t; b.nm = 'b'; e.nm = 'e'; s.nm = 's'; t.nm = 't';
  static char expect[48], alt[48]; int ne = 0, na = 0;
  auto add = [&](const char* t, bool to_expect, bool to_alt) { for (int k = 0; t[k]; ++k) { if (to_expect) expect[ne++] = t[k]; if (to_alt) alt[na++] = t[k]; } };
#if VX_FORALL
  static FORALLStatement st; st._var = new VariableExpression(iv); st._exp = &t; st._exec = new Executable(ctx, L_none);
  st._order = VX_DIR == 0 ? FORALLStatement::AUTO : VX_DIR == 1 ? FORALLStatement::ASC : FORALLStatement::DESC;
  add("forall I in t ", true, true);
  if (VX_DIR == 2) add("desc ", true, true);
  if (VX_DIR == 1) add("asc ", true, false);       /* forall: asc is the default direction, with or without the keyword */
  add("loop\n", true, true);
#else
  static FORStatement st; st._var = new VariableExpression(iv); st._expBeg = &b; st._expEnd = &e; st._expStp = VX_STEP ? &s : nullptr; st._exec = new Executable(ctx, L_none);
  st._order = VX_DIR == 0 ? FORStatement::AUTO : VX_DIR == 1 ? FORStatement::ASC : FORStatement::DESC;
  add("for I in b to e ", true, true);
  if (VX_STEP) add("step s ", true, true);
  if (VX_DIR == 1) add("asc ", true, true); else if (VX_DIR == 2) add("desc ", true, true);
  add("loop\n", true, true);
#endif
  size_t lvl = ctx.execLevel();
  try { st.unparse(ctx, out); } catch (...) { verif_assert(false, "C01: writing a statement back raises nothing"); return; }
  VX_WITNESS();
  char buf[48]; long m = vx_io_text(out, buf, 40); long w = vx_io_written(out);
  bool same1 = (w == (long)ne), same2 = (w == (long)na);
  for (long k = 0; k < 40; ++k) { if (k < m && same1 && k < (long)ne && buf[k] != expect[k]) same1 = false; if (k < m && same2 && k < (long)na && buf[k] != alt[k]) same2 = false; }
  verif_assert(same1 || same2, "C12: a loop header is written back with its variable, bounds, step and direction keyword exactly as the grammar reads them");
  verif_assert(ctx.execLevel() == lvl, "C12: writing a statement back leaves the execution level as it was");
}
