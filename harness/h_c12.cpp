// C12-K1: string literals survive printing and re-reading: Value::parseLiteral(Value::readableLiteral(s)) == s.
// The escape pattern (which positions hold one of the eight escaped characters) is the instance parameter VX_PAT
// (a string over P = plain byte, E = escaped character), so that all lengths are concrete; the bytes are symbolic.
#include "vx_harness.h"
#include <cstring>
using namespace vx;
#ifndef VX_PAT
#define VX_PAT "PE"
#endif
static bool special(unsigned char c) { return c == '\a' || c == '\b' || c == '\f' || c == '\n' || c == '\r' || c == '\t' || c == '\\' || c == '"'; }
extern "C" void c12_literal()
{
  const char* pat = VX_PAT; const int L = (int)sizeof(VX_PAT) - 1;
  unsigned char in[4] = {0, 0, 0, 0};
  Literal s;
  for (int i = 0; i < L; ++i) {
    in[i] = in_uchar(i);
    verif_assume(in[i] != 0);                           /* NUL cannot occur in source text */
    verif_assume(special(in[i]) == (pat[i] == 'E'));
    s.push_back((char)in[i]);
  }
  std::string text = Value::readableLiteral(s);
  int nesc = 0; for (int i = 0; i < L; ++i) if (pat[i] == 'E') ++nesc;
  verif_assert((int)text.size() == L + nesc + 2, "C12: rendered literal is the content plus one backslash per escaped character plus the two quotes");
  verif_assert(text[0] == '"' && text[text.size() - 1] == '"', "C12: rendered literal is enclosed in double quotes");
  /* the only unescaped double quote inside is the closing one: the text stays one LITERAL token for the scanner */
  { bool esc = false; bool ok = true;
    for (int i = 1; i + 1 < (int)text.size(); ++i) { if (esc) esc = false; else if (text[i] == '\\') esc = true; else if (text[i] == '"') ok = false; }
    verif_assert(ok && !esc, "C12: no unescaped quote and no dangling backslash inside the rendered literal"); }
  Value back = Value::parseLiteral(text);
  VX_WITNESS();
  verif_assert(back.type() == Value::type_literal && !back.isNull(), "C12: the rendered literal parses back to a string");
  Literal* r = back.literal();
  verif_assert((int)r->size() == L, "C12: re-read literal has the original length");
  for (int i = 0; i < L; ++i) verif_assert((int)r->size() == L && (unsigned char)(*r)[i] == in[i], "C12: re-read literal has the original bytes");
}
