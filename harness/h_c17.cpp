// C17 kernel K1: reference counting of module objects (bloc::Complex). Inductive step: from an arbitrary
// consistent state of 3 handles over 2 objects (refcount of an object == number of live handles sharing it >= 1),
// one operation (copy, assign, swap, destroy) keeps the state consistent, and the module's destroyObject is
// called exactly when an object's last handle goes away - never twice, never while a handle remains.
#include <string>
#include <vector>
#include "vx_harness.h"
#include <blocc/plugin_interface.h>
#define private public
#define protected public
#define class struct          /* members of bloc::Complex are private by class default: open them without touching /repo */
#include <blocc/complex.h>
#undef class
#include <blocc/plugin.h>
#include <blocc/plugin_manager.h>
#undef private
#undef protected
using namespace vx;
#ifndef VX_OP
#define VX_OP 0   /* 0 copy-construct, 1 assign, 2 swap, 3 destroy, 4 Value::clone of an object value, 5 Value dtor */
#endif
static int destroyed[2]; static void* OBJ[2]; static char objmem[2];
struct CountingPlugin : public plugin::PluginBase {
  void declareInterface(PLUGIN_INTERFACE*) override { }
  void* createObject(int, Context&, const std::vector<Expression*>&) override { return nullptr; }
  void destroyObject(void* o) override { if (o == OBJ[0]) ++destroyed[0]; else if (o == OBJ[1]) ++destroyed[1]; else verif_assert(false, "C17: destroyObject called with a pointer that is not a live object"); }
  Value* executeMethod(Complex&, int, Context&, const std::vector<Expression*>&) override { return nullptr; }
};
extern "C" void c17_refcount()
{
  PluginManager& pm = PluginManager::instance();
  static CountingPlugin plug;
  pm._modules.reserve(2);
  PLUGGED_MODULE m; m.interface = PluginManager::_internal; m.instance = &plug; m.dlhandle = nullptr;
  pm._modules.push_back(m);                       /* type id 1 */
  OBJ[0] = &objmem[0]; OBJ[1] = &objmem[1];
  /* arbitrary consistent pre-state: handle h[k] refers to object own[k]; counters = number of sharers */
  int own1 = in_int(0), own2 = in_int(1); verif_assume(own1 >= 0 && own1 <= 1 && own2 >= 0 && own2 <= 1);
  Complex* h0 = new Complex(1, OBJ[0]);
  Complex* h1 = own1 == 0 ? new Complex(*h0) : new Complex(1, OBJ[1]);
  Complex* h2 = own2 == 0 ? new Complex(*h0) : (own1 == 1 ? new Complex(*h1) : new Complex(1, OBJ[1]));
  int cnt0 = 1 + (own1 == 0) + (own2 == 0), cnt1 = (own1 == 1) + (own2 == 1);
  verif_assert(*h0->_refcount == cnt0 && (cnt1 == 0 || *(own1 == 1 ? h1 : h2)->_refcount == cnt1), "C17: copies share one counter per object");
  int owner[3] = { 0, own1, own2 }; bool live[3] = { true, true, true };
  Complex* h[3] = { h0, h1, h2 };
  int a = in_int(2), b = in_int(3); verif_assume(a >= 0 && a <= 2 && b >= 0 && b <= 2);
  Complex* extra = nullptr; int extra_owner = -1;
#if VX_OP == 0
  extra = new Complex(*h[a]); extra_owner = owner[a];
#elif VX_OP == 1
  *h[a] = *h[b]; owner[a] = owner[b];
#elif VX_OP == 2
  h[a]->swap(*h[b]); { int t = owner[a]; owner[a] = owner[b]; owner[b] = t; }
#elif VX_OP == 3
  delete h[a]; live[a] = false;
#elif VX_OP == 4
  { Value v(h[a]); live[a] = false;                 /* the value owns the handle */
    Value c = v.clone();                            /* b = a on object values: shares the object */
    verif_assert(c.type() == v.type() && c.complex() != v.complex() && *c.complex() == *v.complex(), "C17: cloning an object value yields a new handle to the same object");
    verif_assert(destroyed[0] == 0 && destroyed[1] == 0, "C17: copying never destroys");
  }                                                 /* both values die here */
#elif VX_OP == 5
  { Value v(h[a]); live[a] = false; Value w(std::move(v)); verif_assert(v.isNull() && !w.isNull(), "C17: moving a value moves the handle"); }
#endif
  VX_WITNESS();
  int n0 = 0, n1 = 0;
  for (int k = 0; k < 3; ++k) if (live[k]) { if (owner[k] == 0) ++n0; else ++n1; }
  if (extra) { if (extra_owner == 0) ++n0; else ++n1; }
  /* expected destroy events: an object that had sharers before and has none now */
  verif_assert(destroyed[0] == ((cnt0 > 0 && n0 == 0) ? 1 : 0), "C17: object 0 is handed to destroyObject exactly when its last handle is gone");
  verif_assert(destroyed[1] == ((cnt1 > 0 && n1 == 0) ? 1 : 0), "C17: object 1 is handed to destroyObject exactly when its last handle is gone");
  for (int k = 0; k < 3; ++k) if (live[k]) {
    verif_assert(h[k]->_instance == OBJ[owner[k]] && h[k]->_refcount != nullptr, "C17: every live handle still refers to its object");
    verif_assert(*h[k]->_refcount == (owner[k] == 0 ? n0 : n1), "C17: the counter equals the number of live handles of the object");
  }
  if (extra) verif_assert(extra->_instance == OBJ[extra_owner] && *extra->_refcount == (extra_owner == 0 ? n0 : n1), "C17: a copy refers to the same object and is counted");
}

// C17-K2: a method call is compiled for one module (type id); at run time it may only be executed on a live object of THAT module
// (MemberMETHODExpression::value). The receiver holds an object whose module id is symbolic (the variable may have been re-bound since
// the call was compiled): the module's executeMethod is reached exactly when the ids agree, otherwise a BLOC error is raised; a null
// receiver yields null and executes nothing.
#include <blocc/member/member_complex.h>
static int exec_calls = 0; static void* exec_on = nullptr;
struct ExecPlugin : public plugin::PluginBase {
  void declareInterface(PLUGIN_INTERFACE*) override { }
  void* createObject(int, Context&, const std::vector<Expression*>&) override { return nullptr; }
  void destroyObject(void*) override { }
  Value* executeMethod(Complex& o, int, Context&, const std::vector<Expression*>&) override { ++exec_calls; exec_on = o.instance(); return new Value(Integer(1)); }
};
extern "C" void c17_dispatch()
{
  static Context ctx(1, 2);
  PluginManager& pm = PluginManager::instance();
  static ExecPlugin plugA, plugB;
  pm._modules.reserve(3);
  PLUGGED_MODULE ma; ma.interface = PluginManager::_internal; ma.instance = &plugA; ma.dlhandle = nullptr;
  PLUGGED_MODULE mb; mb.interface = PluginManager::_internal; mb.instance = &plugB; mb.dlhandle = nullptr;
  pm._modules.push_back(ma);                      /* type id 1: the module the call was compiled for */
  pm._modules.push_back(mb);                      /* type id 2: another module */
  static PLUGIN_METHOD meth; meth.id = 0; meth.name = "count"; meth.ret.decl = "I"; meth.ret.ndim = 0; meth.args_count = 0; meth.args = nullptr; meth.brief = "";
  static char obj;
  int tid = in_bool(0) ? 1 : 2; bool isnull = in_bool(1);
  Value* recv = new Value(new Complex(tid, &obj));
  if (isnull) recv->swap(Value(Type(Type::COMPLEX, (Type::TypeMinor)tid)));
  recv->to_lvalue(true);
  SymExpr* e0 = new SymExpr(recv);
  MemberMETHODExpression* m = new MemberMETHODExpression(meth, 1, e0);
  bool thrown = false; Value* r = nullptr;
  try { r = &m->value(ctx); } catch (RuntimeError&) { thrown = true; } catch (...) { verif_assert(false, "C01: only RuntimeError may leave a method call"); return; }
  VX_WITNESS();
  if (isnull) { verif_assert(!thrown && r != nullptr && r->isNull() && exec_calls == 0, "C17: a method call on a null object yields null and executes nothing"); return; }
  if (tid != 1) verif_assert(thrown && exec_calls == 0, "C17: a method is only ever executed on an object of the module that defines it - an object of another module is refused");
  else verif_assert(!thrown && exec_calls == 1 && exec_on == &obj, "C17: a method call on an object of its module executes the method once, on that object");
}
