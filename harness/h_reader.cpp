// C13-K1: the line readers deliver the text unchanged apart from removed CRs, in pieces of at most max_size bytes,
// each ending at the first LF: StringReader::read (blocc) - concatenated deliveries == text without CRs.
// Text of VX_TLEN symbolic bytes (instance parameter length), max_size symbolic in 1..3.
#include "vx_harness.h"
#include <cstring>
#include <blocc/string_reader.h>
using namespace vx;
#ifndef VX_TLEN
#define VX_TLEN 3
#endif
extern "C" void c13_string_reader()
{
  unsigned char t[VX_TLEN + 1];
  std::string text;
  for (int i = 0; i < VX_TLEN; ++i) { t[i] = in_uchar(i); verif_assume(t[i] != 0); text.push_back((char)t[i]); }
  int max_size = in_int(0); verif_assume(max_size >= 1 && max_size <= 3);
  StringReader rd(text);
  unsigned char out[VX_TLEN + 1]; int n = 0; int calls = 0; bool ok_piece = true; bool zero_before_end = false;
  for (int k = 0; k < VX_TLEN + 2; ++k) {
    char buf[4]; int c = rd.read(nullptr, buf, max_size);
    ++calls;
    if (c < 0 || c > max_size) ok_piece = false;
    if (c == 0) break;
    for (int j = 0; j < 3; ++j) if (j < c) {
      if (n < VX_TLEN) out[n] = (unsigned char)buf[j];
      ++n;
      if (buf[j] == '\n' && j != c - 1) ok_piece = false;         /* a delivery ends at the first LF */
    }
  }
  VX_WITNESS();
  /* reference: the text with CRs removed */
  unsigned char ref[VX_TLEN + 1]; int m = 0;
  for (int i = 0; i < VX_TLEN; ++i) if (t[i] != '\r') ref[m++] = t[i];
  verif_assert(ok_piece, "C13: every delivery has at most max_size bytes and ends at the first line feed");
  verif_assert(n == m, "C13: the deliveries together are the text without its CRs (nothing lost, nothing delivered twice)");
  for (int i = 0; i < VX_TLEN; ++i) if (i < m && n == m) verif_assert(out[i] == ref[i], "C13: delivered bytes are the text bytes in order");
  (void)zero_before_end; (void)calls;
}
