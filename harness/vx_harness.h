// common harness support (C++ side). The same source is (a) lowered to IR and
// translated for CBMC, (b) compiled natively (-DVX_NATIVE) for replay.
#pragma once
#include <string>
#include <vector>
#include <list>
#include <cstdint>
#include <blocc/value.h>
#include <blocc/context.h>
#include <blocc/expression.h>
#include <blocc/exception_runtime.h>
#include <blocc/exception_parse.h>
#include "kf_ids.h"
extern "C" {
  void verif_assume(bool c);
  void verif_assert(bool c, const char* msg);
  /* known-finding region: excluded (assumed away) in the main run, assumed in the reproduction run */
  void verif_known(int id, bool in_region);
  /* symbolic inputs, slot k is recorded so a counterexample can be replayed natively */
  long in_long(int k); bool in_bool(int k); unsigned char in_uchar(int k); double in_double(int k); int in_int(int k);
  /* observable streams: a fresh sink; bytes written to it; its first bytes; bytes written to the process's standard output in a window */
  void vx_set_numtext(void* s, long n); double vx_num_of_text(void* s);
  void* vx_io_new(void); long vx_io_written(void* f); long vx_io_text(void* f, void* buf, long n); void vx_io_begin(void); long vx_io_end(void);
}
#define VX_WITNESS() verif_assert(false, "WITNESS reachable")
namespace vx {
using namespace bloc;
// a child expression whose static type and run-time value are chosen by the harness
struct SymExpr : Expression {
  Value* v = nullptr; Type t; mutable int evals = 0; int throw_no = -1;
  SymExpr() {}
  explicit SymExpr(Value* x) : v(x), t(x->type()) {}
  std::string unparse(Context&) const override { return std::string(); }
  const Type& type(Context&) const override { return t; }
  Value& value(Context&) const override { ++evals; return *v; }
};
// operand kinds (instance parameters)
enum Kind { K_NOTYPE = 0, K_BOOLEAN = 1, K_INTEGER = 2, K_NUMERIC = 3, K_LITERAL = 4, K_TABCHAR = 5, K_IMAGINARY = 6, K_TABI = 7 /* table of integers */, K_TABD = 8 /* table of decimals */ };
}
