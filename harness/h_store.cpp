// Context::storeVariable kernels: copy semantics of assignment (C05-K3) and symbol type follows the stored value (C02-K2).
// Instance parameters: VX_SK kind of the source value, VX_DK kind the destination slot currently holds.
#include <string>
#include <vector>
#define private public
#define protected public
#include "vx_harness.h"
#undef private
#undef protected
#include <cstring>
using namespace vx;
#ifndef VX_SK
#define VX_SK K_INTEGER
#endif
#ifndef VX_DK
#define VX_DK K_INTEGER
#endif
static Type type_of(int k) { return k == K_BOOLEAN ? Type(Type::BOOLEAN) : k == K_INTEGER ? Type(Type::INTEGER) : k == K_NUMERIC ? Type(Type::NUMERIC) : k == K_LITERAL ? Type(Type::LITERAL) : k == K_TABI ? Type(Type::INTEGER, 0, 1) : Type(); }      /* K_TABI: a table of integers, always null here (same major type as an integer, another level) */
static Value mkv(int kind, bool isnull, long i, unsigned char c0, int len)
{
  switch (kind) {
  case K_BOOLEAN: return isnull ? Value(Value::type_boolean) : Value(Bool(i & 1));
  case K_INTEGER: return isnull ? Value(Value::type_integer) : Value(Integer(i));
  case K_NUMERIC: return isnull ? Value(Value::type_numeric) : Value(Numeric((double)(i & 0xffff)));
  case K_LITERAL: { if (isnull) return Value(Value::type_literal); Literal* s = new Literal(); if (len > 0) s->push_back((char)c0); return Value(s); }
  case K_TABI: return Value(Type(Type::INTEGER, 0, 1));
  default: return Value();
  }
}
static bool same(Value& v, int kind, bool isnull, long i, unsigned char c0, int len)
{
  if (!(v.type() == type_of(kind)) || v.isNull() != isnull) return false;
  if (isnull) return true;
  switch (kind) {
  case K_BOOLEAN: return *v.boolean() == (bool)(i & 1);
  case K_INTEGER: return *v.integer() == i;
  case K_NUMERIC: return *v.numeric() == (double)(i & 0xffff);
  case K_LITERAL: return (int)v.literal()->size() == len && (len == 0 || (unsigned char)(*v.literal())[0] == c0);
  default: return true;
  }
}
// b = a  (a is another variable: an lvalue source), or b = <temporary>
extern "C" void c05_store()
{
  static Context ctx(1, 2);
  ctx._storage_pool.reserve(2);
  Symbol& sa = ctx.registerSymbol("A", type_of(VX_SK));
  Symbol& sb = ctx.registerSymbol("B", type_of(VX_DK));
  bool snull = in_bool(0), dnull = in_bool(1), from_var = in_bool(2), safe = in_bool(3), locked = in_bool(4);
  long si = in_long(0), di = in_long(1); unsigned char sc = in_uchar(0), dc = in_uchar(1); int sl = in_int(0), dl = in_int(1);
  verif_assume(sl >= 0 && sl <= 1 && dl >= 0 && dl <= 1);
  if (VX_SK == K_NOTYPE || VX_SK == K_TABI) snull = true; if (VX_DK == K_NOTYPE || VX_DK == K_TABI) dnull = true;
  /* pre-state: A holds the source value (as a variable does: lvalue), B holds something of kind VX_DK */
  ctx._storage_pool[0].value.swap(mkv(VX_SK, snull, si, sc, sl).to_lvalue(true));
  ctx._storage_pool[1].value.swap(mkv(VX_DK, dnull, di, dc, dl).to_lvalue(true));
  sb.safety(safe); sb.locked(locked);
  Value tmp = mkv(VX_SK, snull, si, sc, sl);           /* the temporary alternative */
  bool thrown = false; int code = 0;
  try { ctx.storeVariable(sb.id(), std::move(from_var ? ctx._storage_pool[0].value : tmp)); }
  catch (RuntimeError& re) { thrown = true; code = re.no; }
  catch (...) { verif_assert(false, "C01: only RuntimeError may leave storeVariable"); return; }
  VX_WITNESS();
  Value& a = ctx._storage_pool[0].value; Value& b = ctx._storage_pool[1].value;
  /* the source variable is never disturbed by being assigned from */
  verif_assert(same(a, VX_SK, snull, si, sc, sl) && a.lvalue(), "C05: assigning from a variable leaves that variable (value and storage flag) unchanged");
  if (locked) { verif_assert(thrown, "C06/C09: a read-only (locked) variable refuses assignment"); }
  else if (safe && VX_SK != VX_DK) { verif_assert(thrown && code == EXC_RT_TYPE_MISMATCH_S, "C02: a type-safe variable refuses a value of another major type"); }
  else {
    verif_assert(!thrown, "C05: assignment of a scalar succeeds");
    if (!thrown) {
      verif_assert(same(b, VX_SK, snull, si, sc, sl), "C05: the destination holds a copy of the assigned value");
      verif_assert(b.lvalue(), "C05: a stored value is owned by its variable (lvalue)");
      verif_assert(sb == type_of(VX_SK), "C02: the symbol's type follows the stored value's type");
      if (VX_SK == K_LITERAL && !snull && from_var) verif_assert(a.literal() != b.literal(), "C05: after b = a the two variables do not share storage");
    }
  }
  if (thrown) verif_assert(same(b, VX_DK, dnull, di, dc, dl) && sb == type_of(VX_DK), "C05: a refused assignment leaves the destination unchanged");
}

// LETStatement::doit through a forall iterator (the variable holds a pointer to a table element): the element receives a
// copy of the value, stays owned by the table (lvalue flag set, so later consumers clone instead of moving it out), and an
// lvalue source is untouched.
#include <blocc/statement_let.h>
#include <blocc/expression_variable.h>
extern "C" void c05_let_through_iterator()
{
  static Context ctx(1, 2);
  ctx._storage_pool.reserve(2);
  Symbol& it = ctx.registerSymbol("E", type_of(VX_DK));
  bool snull = in_bool(0), enull = in_bool(1), slval = in_bool(2), locked = in_bool(3);
  if (VX_SK == K_NOTYPE || VX_SK == K_TABI) snull = true; if (VX_DK == K_NOTYPE || VX_DK == K_TABI) enull = true;
  long si = in_long(0), ei = in_long(1); unsigned char sc = in_uchar(0), ec = in_uchar(1); int sl = in_int(0), el = in_int(1);
  verif_assume(sl >= 0 && sl <= 1 && el >= 0 && el <= 1);
  static Value elem; elem.swap(mkv(VX_DK, enull, ei, ec, el).to_lvalue(true));        /* the table element */
  ctx._storage_pool[0].value.swap(Value(&elem).to_lvalue(true));                      /* iterator = pointer to the element */
  it.safety(true); it.locked(locked);
  static Value src; src.swap(mkv(VX_SK, snull, si, sc, sl)); src.to_lvalue(slval);
  SymExpr* e = new SymExpr(&src);
  LETStatement let(VariableExpression(it), e);
  bool thrown = false;
  try { let.doit(ctx); } catch (RuntimeError&) { thrown = true; } catch (...) { verif_assert(false, "C01: only RuntimeError may leave an assignment"); return; }
  VX_WITNESS();
  if (locked) { verif_assert(thrown && same(elem, VX_DK, enull, ei, ec, el), "C09: a read-only iterator (constant table) refuses assignment and the element is unchanged"); return; }
  if (VX_SK != VX_DK) { verif_assert(thrown && same(elem, VX_DK, enull, ei, ec, el), "C09/C06: a value of another type - also one that differs only in its number of dimensions - is refused through the iterator and the element is unchanged (tables stay uniform)"); return; }
  verif_assert(!thrown, "C06: an assignment of the same type through the iterator succeeds");
  if (thrown) return;
  verif_assert(same(elem, VX_SK, snull, si, sc, sl), "C06: a write through the forall iterator lands in the table element");
  verif_assert(elem.lvalue(), "C05/C17/C09: a value written through the iterator is owned by the table (later uses copy it, never move it out)");
  if (slval) verif_assert(same(src, VX_SK, snull, si, sc, sl) && src.lvalue(), "C05: an lvalue source is unchanged by the assignment");
  verif_assert(ctx._storage_pool[0].value.type() == Type::POINTER, "C06: the iterator still points into the table");
}
