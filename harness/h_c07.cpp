// C07 kernel K1: BEGINStatement::doit / docatch - handler matching, error visibility, exec-level restore.
// Instance parameters: VX_KIND (what the body raises), VX_CL (clause list). Symbolic: whether the chosen
// handler itself raises, the exec level the block starts at.
#include <string>
#include <vector>
#include <list>
#include <memory>
#include <forward_list>
#define private public
#define protected public
#include "vx_harness.h"
#include <blocc/statement_begin.h>
#include <blocc/executable.h>
#undef private
#undef protected
using namespace vx;
#ifndef VX_KIND
#define VX_KIND 1     /* 0 none, 1 user "A", 2 user "B", 3 DIVIDE_BY_ZERO, 4 OUT_OF_RANGE, 5 INV_EXPRESSION (not catchable) */
#endif
#ifndef VX_CL
#define VX_CL 0       /* 0: A,OTHERS  1: B  2: DIVIDE_BY_ZERO,OUT_OF_RANGE  3: none  4: OTHERS,A  5: A,B */
#endif
static std::list<const Statement*> L_none; static const std::list<const Statement*> *P_body, *P_h1, *P_h2;
static Context* P_exec_ctx; static bool body_ctx_ok = true, h_ctx_ok = true;
static int ran_h1, ran_h2, ran_body; static int err_in_h; static bool h_throws; static size_t lvl_in_body, lvl_in_h;
namespace bloc {
int Executable::run(Context& ctx, const std::list<const Statement*>& st) {
  if (&st == P_body) { ++ran_body; lvl_in_body = ctx.execLevel(); body_ctx_ok = (&ctx == P_exec_ctx);
    switch (VX_KIND) {
    case 1: throw RuntimeError(EXC_RT_USER_S, "A");
    case 2: throw RuntimeError(EXC_RT_USER_S, "B");
    case 3: throw RuntimeError(EXC_RT_DIVIDE_BY_ZERO);
    case 4: throw RuntimeError(EXC_RT_OUT_OF_RANGE);
    case 5: throw RuntimeError(EXC_RT_INV_EXPRESSION);
    default: return 0; } }
  if (&st == P_h1 || &st == P_h2) {
    if (&st == P_h1) ++ran_h1; else ++ran_h2;
    h_ctx_ok = (&ctx == P_exec_ctx);
    err_in_h = ctx.error().no; lvl_in_h = ctx.execLevel();
    if (h_throws) throw RuntimeError(EXC_RT_OUT_OF_RANGE);
    return 0; }
  return 0;
}
Executable::~Executable() { }
}
static const char* CL[6][2] = { {"A", "OTHERS"}, {"B", nullptr}, {"DIVIDE_BY_ZERO", "OUT_OF_RANGE"}, {nullptr, nullptr}, {"OTHERS", "A"}, {"A", "B"} };
static bool clause_matches(const char* c) {
  if (!c) return false;
  std::string n(c);
  bool catchable = VX_KIND >= 1 && VX_KIND <= 4;
  if (n == "OTHERS") return catchable;
  if (n == "DIVIDE_BY_ZERO") return VX_KIND == 3;
  if (n == "OUT_OF_RANGE") return VX_KIND == 4;
  return (VX_KIND == 1 && n == "A") || (VX_KIND == 2 && n == "B");
}
extern "C" void c07_begin()
{
  static Context ctx(1, 2);
  static Context cctx(1, 2);        /* the context the block was compiled in: a program may be executed in another one (clone, function body) */
  P_exec_ctx = &ctx;
  ctx._execstack._stack.reserve(4);
  static BEGINStatement outer, bs;
  bs._exec = new Executable(cctx, L_none);
  static Executable h1(cctx, L_none), h2(cctx, L_none);
  P_body = &bs._exec->_statements; P_h1 = &h1._statements; P_h2 = &h2._statements;
  if (CL[VX_CL][0]) bs._catches.push_back(std::make_pair(std::string(CL[VX_CL][0]), &h1));
  if (CL[VX_CL][1]) bs._catches.push_back(std::make_pair(std::string(CL[VX_CL][1]), &h2));
  h_throws = in_bool(0);
  if (in_bool(1)) ctx.execBegin(&outer);           /* the block may itself be nested */
  size_t lvl = ctx.execLevel();
  bool escaped = false; int code = 0;
  try { bs.doit(ctx); } catch (RuntimeError& re) { escaped = true; code = re.no; } catch (...) { verif_assert(false, "C01: foreign exception from begin"); return; }
  VX_WITNESS();
  int expect = clause_matches(CL[VX_CL][0]) ? 1 : clause_matches(CL[VX_CL][1]) ? 2 : 0;
  verif_assert(ctx.execLevel() == lvl, "C07/C15/C06: execution level restored on every exit (an error passing through then unstacks the enclosing loops)");
  verif_assert(ran_body == 1 && lvl_in_body == lvl + 1, "C07: body runs once, one level deeper");
  verif_assert(body_ctx_ok && h_ctx_ok, "C07/C14: body and handler run in the context that executes the block, not in the one the block was compiled in");
  verif_assert(ran_h1 == (expect == 1 ? 1 : 0) && ran_h2 == (expect == 2 ? 1 : 0), "C07: exactly the first matching clause runs (others = any catchable kind)");
  if (VX_KIND == 0) verif_assert(!escaped, "C07: no error, nothing reported");
  else if (expect == 0) {
    int kno = VX_KIND <= 2 ? EXC_RT_USER_S : VX_KIND == 3 ? EXC_RT_DIVIDE_BY_ZERO : VX_KIND == 4 ? EXC_RT_OUT_OF_RANGE : EXC_RT_INV_EXPRESSION;
    verif_assert(escaped && code == kno, "C07: unmatched or non-catchable error is reported to the caller unchanged");
  } else {
    int kno = VX_KIND <= 2 ? EXC_RT_USER_S : VX_KIND == 3 ? EXC_RT_DIVIDE_BY_ZERO : EXC_RT_OUT_OF_RANGE;
    verif_assert(err_in_h == kno && lvl_in_h == lvl + 1, "C07: the caught error is visible while the handler runs");
    if (h_throws) verif_assert(escaped && code == EXC_RT_OUT_OF_RANGE, "C07: an error raised by the handler propagates");
    else { verif_assert(!escaped, "C07: handled error stops propagating"); verif_assert(ctx.error().no == EXC_RT_NOERROR, "C07/C15: error record cleared after handling"); }
  }
}
