// C09-K6 / C01: tuple item access t@N (ItemExpression::value) on a tuple of two items, for EVERY index: an index inside the tuple
// yields that item, any other one - also the one just past the end - raises the BLOC index error; nothing else escapes.
// K7: insert(pos, x) into a table of tuples checks the STRUCTURE of a tuple whose type is opaque at compile time.
#include <string>
#include <vector>
#define private public
#define protected public
#include "vx_harness.h"
#include <blocc/expression_item.h>
#include <blocc/tuple.h>
#include <blocc/collection.h>
#include <blocc/member/member_insert.h>
#undef private
#undef protected
using namespace vx;
#ifndef VX_NULLRECV
#define VX_NULLRECV 0
#endif
extern "C" void c09_item()
{
  static Context& ctx = *new Context(1, 2);
  Tuple::container_t items(2); items[0] = Value(Integer(in_long(0))); items[1] = Value(Bool(in_bool(0)));
  long i0 = *items[0].integer(); bool b1 = *items[1].boolean();
  Value* tv = new Value(new Tuple(std::move(items)));
  if (VX_NULLRECV) tv->swap(Value(Value::type_rowtype));
  tv->to_lvalue(in_bool(1));
  SymExpr* e0 = new SymExpr(tv);
  unsigned idx = (unsigned)in_int(0);
  ItemExpression* it = new ItemExpression(e0, idx);
  bool thrown = false; int code = -1; Value* r = nullptr;
  try { r = &it->value(ctx); } catch (RuntimeError& re) { thrown = true; code = re.no; } catch (...) { verif_assert(false, "C01: only RuntimeError may leave a tuple item access (an index one past the end included)"); return; }
  VX_WITNESS();
  if (VX_NULLRECV || idx >= 2) { verif_assert(thrown && code == EXC_RT_INDEX_RANGE_S, "C09: an item index outside the tuple (or a null tuple) raises the index error"); return; }
  verif_assert(!thrown && r != nullptr, "C09: an item index inside the tuple succeeds");
  if (thrown || !r) return;
  if (idx == 0) verif_assert(r->type() == Value::type_integer && !r->isNull() && *r->integer() == i0, "C09: t@1 is the first item");
  else verif_assert(r->type() == Value::type_boolean && !r->isNull() && *r->boolean() == b1, "C09: t@2 is the second item");
}
#ifndef VX_SAME
#define VX_SAME 0      /* the inserted tuple has the row structure of the table (1) or another one (0) */
#endif
extern "C" void c09_insert_structure()
{
  static Context& ctx = *new Context(1, 2);
  /* a table of one {integer, boolean} row */
  Tuple::container_t row(2); row[0] = Value(Integer(1)); row[1] = Value(Bool(true));
  Tuple* r0 = new Tuple(std::move(row));
  Collection* tab = new Collection(r0->tuple_decl(), 1); tab->reserve(2);
  tab->push_back(Value(r0)); tab->at(0).to_lvalue(true);
  Value* recv = new Value(tab); recv->to_lvalue(true);
  /* the tuple to insert: same structure, or {boolean, integer} */
  Tuple::container_t xi(2);
  if (VX_SAME) { xi[0] = Value(Integer(in_long(0))); xi[1] = Value(Bool(in_bool(0))); } else { xi[0] = Value(Bool(in_bool(0))); xi[1] = Value(Integer(in_long(0))); }
  Value* x = new Value(new Tuple(std::move(xi))); x->to_lvalue(false);
  SymExpr* e0 = new SymExpr(recv); SymExpr* e1 = new SymExpr(new Value(Integer(0))); SymExpr* e2 = new SymExpr(x);
  e2->t = Type(Type::ROWTYPE);           /* opaque tuple at compile time (function result): only the run-time check protects the table */
  std::vector<Expression*> margs(2); margs[0] = e1; margs[1] = e2;
  MemberINSERTExpression* m = new MemberINSERTExpression(e0, std::move(margs));
  bool thrown = false;
  try { m->value(ctx); } catch (RuntimeError&) { thrown = true; } catch (...) { verif_assert(false, "C01: only RuntimeError may leave insert()"); return; }
  VX_WITNESS();
  if (VX_SAME) verif_assert(!thrown && tab->size() == 2, "C09: a tuple of the table's row structure is inserted");
  else verif_assert(thrown && tab->size() == 1, "C09: a tuple of another structure is refused by insert() and the table is unchanged (rows stay uniform)");
}
