// C08 kernels: FunctorManager::createEnv (context recycling, recursion limit, argument binding)
#include <string>
#include <vector>
#include <memory>
#include <forward_list>
#define private public
#define protected public
#include "vx_harness.h"
#include <blocc/functor_manager.h>
#include <blocc/statement.h>
#undef private
#undef protected
using namespace vx;

// an argument expression that looks at the function's context cache while it is being evaluated (a nested call of the
// same function inside the argument list would take whatever is at the front of the cache)
static FunctorManager* g_fm = nullptr; static Context* g_rc = nullptr; static bool g_avail_during_binding = false;
struct ProbeExpr : SymExpr {
  Value& value(Context& c) const override {
    if (g_fm && !g_fm->_declarations[0].ctx_cache.empty() && g_fm->_declarations[0].ctx_cache.front() == g_rc) g_avail_during_binding = true;
    return SymExpr::value(c);
  }
};
// K1: one inductive step over the cache state: the cached runtime context is whatever an earlier
// call may have left behind (arbitrary values of parameter A and local X, arbitrary return flag).
extern "C" void c08_k1()
{
  static Context root(1, 2);
  FunctorManager& fm = *root._fctm;
  FunctorPtr f(new Functor());
  f->params.reserve(1);
  f->params.push_back(Symbol(0, "A", Type(Type::NO_TYPE)));
  fm._declarations.reserve(1);
  fm._declarations.emplace_back(FunctorManager::Entry(f));
  Context* rc = new Context(root);            /* shell copy: shares root's streams, no dup() */
  rc->_fctm = root._fctm;
  rc->_storage_pool.reserve(2);
  rc->_storage_pool.push_back(Context::MemorySlot(Symbol(0, "A", Type(Type::NO_TYPE))));
  rc->_storage_pool.push_back(Context::MemorySlot(Symbol(1, "X", Type(Type::INTEGER))));
  long oldA = in_long(0), oldX = in_long(1), a = in_long(2);
  bool xset = in_bool(1);
  rc->storeVariable(0, Value(Integer(oldA)));
  if (xset) rc->storeVariable(1, Value(Integer(oldX)));
  rc->_returnCondition = in_bool(0);
  rc->_recursion = 7;
  fm._declarations[0].ctx_cache.push_front(rc);
  verif_known(KF_FUNCTION_LOCALS_SURVIVE_CALLS, xset);
  static ProbeExpr arg; static Value av{Integer(0)}; *av.integer() = a; av.to_lvalue(true); arg.v = &av;
  g_fm = &fm; g_rc = rc;
  std::vector<Expression*> pv(1); pv[0] = &arg;
  unsigned char depth = in_uchar(0); verif_assume(depth < 255); root._recursion = depth;
  {
    FunctorManager::Env env = fm.createEnv(root, 0, pv);
    verif_assert(&env.context() == rc, "C08: cached context reused");
    verif_assert(!g_avail_during_binding, "C08: the context of a call in preparation is not available to a nested call of the same function made by its own arguments");
    verif_assert(env.context().recursion() == depth + 1, "C08: recursion depth is caller + 1");
    verif_assert(!env.context().returnCondition(), "C08: no pending return in a fresh call");
    Value& pa = env.context().loadVariable(0);
    verif_assert(pa.type() == Type::INTEGER && !pa.isNull() && *pa.integer() == a && &pa != &av, "C08: parameter received by copy");
    verif_assert(!av.isNull() && *av.integer() == a && av.lvalue(), "C08: caller's argument value untouched");
    verif_assert(env.context().loadVariable(1).isNull(), "C08: local variables start every call unset");
    VX_WITNESS();
  }
  verif_assert(!fm._declarations[0].ctx_cache.empty() && fm._declarations[0].ctx_cache.front() == rc, "C08: context returned to the cache after the call");
}

// K2: recursion limit: the 256th nested call raises RECURSION_LIMIT, below it nothing is raised and the counter never wraps
extern "C" void c08_k2()
{
  static Context root(1, 2);
  FunctorManager& fm = *root._fctm;
  FunctorPtr f(new Functor());
  fm._declarations.reserve(1);
  fm._declarations.emplace_back(FunctorManager::Entry(f));
  Context* rc = new Context(root); rc->_fctm = root._fctm;
  fm._declarations[0].ctx_cache.push_front(rc);
  std::vector<Expression*> pv;
  unsigned char depth = in_uchar(0); root._recursion = depth;
  bool thrown = false; int code = 0; unsigned got = 0;
  try { FunctorManager::Env env = fm.createEnv(root, 0, pv); got = env.context().recursion(); }
  catch (RuntimeError& re) { thrown = true; code = re.no; }
  catch (...) { verif_assert(false, "C01: only RuntimeError may leave createEnv"); return; }
  VX_WITNESS();
  if (depth == 255) verif_assert(thrown && code == EXC_RT_RECURSION_LIMIT, "C08: the 256th nested call raises the recursion-limit error");
  else verif_assert(!thrown && got == (unsigned)depth + 1, "C08: below the limit the call proceeds with depth + 1 (no wrap)");
  if (thrown) verif_assert(!fm._declarations[0].ctx_cache.empty(), "C08: refused call leaves the context cache untouched");
}
