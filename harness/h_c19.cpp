// C19-K1: command line splitting of the bloc command (apps/main_options.cpp getCmd): every argument from the first
// non-option on reaches the program (and later $ARG) in order and unmodified; options before it set exactly their flag.
// The shape of the argument vector is the instance parameter VX_ARGS over
//   O = a recognised option (symbolic choice among the documented ones), N = the first non-option ('p' + one symbolic byte,
//   or "-" itself), A = any symbolic <= 2 byte argument (may look like an option).
#include "vx_harness.h"
#include <cstring>
#include <apps/main_options.h>
using namespace vx;
#ifndef VX_ARGS
#define VX_ARGS "ON"
#endif
static char store[4][8];
static const char* OPTS[6] = { "--parse", "-i", "--color", "-e", "--cli", "--expr" };
extern "C" void c19_getcmd()
{
  const char* shape = VX_ARGS; const int n = (int)sizeof(VX_ARGS) - 1;
  char* argv[4]; int optsel[4];
  for (int i = 0; i < n; ++i) {
#ifndef VX_O
#define VX_O 0
#endif
    if (shape[i] == 'O') { int k = (VX_O + i) % 6;      /* which option: instance parameter (a symbolic choice makes the result vector's size symbolic) */ optsel[i] = k; for (int j = 0; j < 8; ++j) { store[i][j] = OPTS[k][j]; if (!OPTS[k][j]) break; } }
    else {
      store[i][0] = (char)in_uchar(2 * i); store[i][1] = (char)in_uchar(2 * i + 1); store[i][2] = 0;
      /* the first non-option: its first byte is concrete ('p', or "-" alone for VX_DASH) so that the option test has a concrete
         outcome and the size of the result vector stays concrete during symbolic execution */
#ifdef VX_DASH
      if (shape[i] == 'N') { store[i][0] = '-'; store[i][1] = 0; }
#else
      if (shape[i] == 'N') store[i][0] = 'p';
#endif
      else verif_assume(store[i][0] != 0);
    }
    argv[i] = store[i];
  }
  MainOptions opt; std::vector<std::string> prog;
  prog.reserve(4);
  const char* bad = getCmd(argv, argv + n, opt, prog);
  VX_WITNESS();
  verif_assert(bad == nullptr, "C19: a command line of recognised options followed by the program and its arguments is accepted");
  int first = 0; while (first < n && shape[first] == 'O') ++first;
  verif_assert((int)prog.size() == n - first, "C19: every argument from the first non-option on is passed to the program");
  for (int i = first; i < n; ++i) if ((int)prog.size() == n - first) {
    const std::string& p = prog[i - first];
    size_t l = std::strlen(store[i]);
    verif_assert(p.size() == l && std::memcmp(p.data(), store[i], l) == 0, "C19: program arguments are passed in order and unmodified (also when they look like options)");
  }
  bool parse = false, cli = false, color = false, expr = false;
  for (int i = 0; i < first; ++i) { int k = optsel[i]; if (k == 0) parse = true; if (k == 1 || k == 4) cli = true; if (k == 2) color = true; if (k == 3 || k == 5) expr = true; }
  verif_assert(opt.parse == parse && opt.docli == cli && opt.color == color && opt.doexp == expr && !opt.debug, "C19: options before the program set exactly their own flag");
  verif_assert(opt.file_sout.empty(), "C19: no output redirection unless --out= is given");
}
