// C13-K1 for the file readers: ReadFile::read (apps/read_file.cpp, VX_WHICH=0) and the private copy used by `include`
// (blocc/statement_include.cpp, VX_WHICH=1): concatenated deliveries == file content without CRs, each delivery at most
// max_size bytes and ending at the first LF. The file is VX_TLEN symbolic bytes served by a harness fread().
#include "vx_harness.h"
#include <cstdio>
#include <cstring>
#ifndef VX_TLEN
#define VX_TLEN 3
#endif
#ifndef VX_WHICH
#define VX_WHICH 0
#endif
static unsigned char g_file[VX_TLEN + 1]; static int g_fpos = 0;
extern "C" size_t fread(void* p, size_t sz, size_t n, FILE*) {       /* the environment: a byte source */
  if (sz != 1 || n != 1) return 0;
  if (g_fpos >= VX_TLEN) return 0;
  *(unsigned char*)p = g_file[g_fpos++]; return 1; }
/* the same byte source through the character-at-a-time calls a reader may use instead */
extern "C" int fgetc(FILE*) { if (g_fpos >= VX_TLEN) return EOF; return g_file[g_fpos++]; }
extern "C" int getc(FILE*) { if (g_fpos >= VX_TLEN) return EOF; return g_file[g_fpos++]; }
extern "C" int ungetc(int c, FILE*) { if (g_fpos > 0) --g_fpos; return c; }
#if VX_WHICH == 0
#include <apps/read_file.h>
#else
#include <blocc/statement_include.cpp>        /* the anonymous-namespace ReadFile copy lives in this TU */
#endif
using namespace vx;
extern "C" void c13_read_file()
{
  for (int i = 0; i < VX_TLEN; ++i) g_file[i] = in_uchar(i);
  int max_size = in_int(0); verif_assume(max_size >= 1 && max_size <= 3);
  ReadFile rd((FILE*)g_file);
  unsigned char out[VX_TLEN + 1]; int n = 0; bool ok_piece = true;
  for (int k = 0; k < VX_TLEN + 2; ++k) {
    char buf[4]; int c = rd.read(nullptr, buf, max_size);
    if (c < 0 || c > max_size) ok_piece = false;
    if (c == 0) break;
    for (int j = 0; j < 3; ++j) if (j < c) { if (n < VX_TLEN) out[n] = (unsigned char)buf[j]; ++n; if (buf[j] == '\n' && j != c - 1) ok_piece = false; }
  }
  VX_WITNESS();
  unsigned char ref[VX_TLEN + 1]; int m = 0;
  for (int i = 0; i < VX_TLEN; ++i) if (g_file[i] != '\r') ref[m++] = g_file[i];
  verif_assert(ok_piece, "C13: every delivery has at most max_size bytes and ends at the first line feed");
  verif_assert(n == m, "C13: the deliveries together are the file content without its CRs");
  for (int i = 0; i < VX_TLEN; ++i) if (i < m && n == m) verif_assert(out[i] == ref[i], "C13: delivered bytes are the file bytes in order");
}
