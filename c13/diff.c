#include <stdio.h>
#include <string.h>
#include "blocc/tokenizer.h"
struct src { const char* t; int n; int pos; int split; };
static void rd(void *h, char *buf, int *len, int maxsize) { struct src *s = h; int n = 0; int lim = (s->pos < s->split) ? s->split : s->n;
  while (s->pos < lim && n < maxsize) { char c = s->t[s->pos++]; buf[n++] = c; if (c == '\n') break; } *len = n; }
int main(void) {
  static const char alpha[] = "a1.e+\"\\/*=<x \n#0-";
  int A = (int)strlen(alpha); char t[8]; unsigned long cnt = 0;
  for (int L = 1; L <= 4; ++L) { int idx[4] = {0,0,0,0};
    for (;;) { for (int i = 0; i < L; ++i) t[i] = alpha[idx[i]]; t[L] = 0;
      for (int split = 0; split < L; ++split) {
        struct src s = { t, L, 0, split }; TOKEN_SCANNER sc = tokenizer_init(&s, rd); tokenizer_enable_space(sc);
        printf("%d:", split); for (int i = 0; i < L; ++i) printf("%02x", (unsigned char)t[i]); printf(" ->");
        for (int k = 0; k < 12; ++k) { int tk = 0; const char* tx = 0; tokenizer_lex(sc, &tk, &tx); if (tk <= 0) { printf(" [%d]", tk); break; } printf(" %d'", tk); for (const char* p = tx; *p; ++p) printf("%02x", (unsigned char)*p); printf("'"); }
        printf(" st=%d\n", tokenizer_state(sc)); tokenizer_free(sc); cnt++; }
      int i = 0; while (i < L && ++idx[i] == A) { idx[i] = 0; ++i; } if (i == L) break; } }
  fprintf(stderr, "%lu cases\n", cnt); return 0; }
