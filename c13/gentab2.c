#include <stdio.h>
typedef void* yyscan_t;
#include "lex._tokenizer.c"
int main(void) {
  int nclass = 0; for (int i = 0; i < 256; ++i) if (yy_ec[i] > nclass) nclass = yy_ec[i]; nclass++;
  printf("{\"ns\": %d, \"nc\": %d, \"jambase\": %d, \"eob\": %d,\n \"ec\": [", VX_NSTATES, nclass, VX_JAMBASE, YY_END_OF_BUFFER);
  for (int i = 0; i < 256; ++i) printf("%d%s", yy_ec[i], i < 255 ? "," : "");
  printf("],\n \"accept\": ["); for (int s = 0; s < VX_NSTATES; ++s) printf("%d%s", yy_accept[s], s < VX_NSTATES-1 ? "," : "");
  printf("],\n \"jam\": ["); for (int s = 0; s < VX_NSTATES; ++s) printf("%d%s", yy_base[s] == VX_JAMBASE, s < VX_NSTATES-1 ? "," : "");
  printf("],\n \"next\": [");
  for (int s = 0; s < VX_NSTATES; ++s) { printf("[");
    for (int c = 0; c < nclass; ++c) { int st = s; YY_CHAR yy_c = (YY_CHAR)c; int r = 0;
      if (s != 0) { while (yy_chk[yy_base[st] + yy_c] != st) { st = (int)yy_def[st]; if (st >= VX_NSTATES) yy_c = yy_meta[yy_c]; } r = yy_nxt[yy_base[st] + yy_c]; }
      printf("%d%s", r, c < nclass-1 ? "," : ""); }
    printf("]%s", s < VX_NSTATES-1 ? "," : ""); }
  printf("]}\n"); return 0; }
