#include <string.h>
#include <stdlib.h>
#include "blocc/tokenizer.h"
#ifndef N
#define N 2
#endif
#define MAXTOK (N+1)
unsigned char nondet_uchar(void); int nondet_int(void);
struct src { char text[N+1]; int pos; int split; };
static void rd(void *h, char *buf, int *len, int maxsize) {
  struct src *s = (struct src*)h; int n = 0;
  int lim = (s->pos < s->split) ? s->split : N;
  while (s->pos < lim && n < maxsize) { char c = s->text[s->pos++]; buf[n++] = c; if (c == '\n') break; }
  *len = n;
}
struct tok { int code; int len; char text[N+1]; };
static int collect(struct src *s, struct tok *out) {
  TOKEN_SCANNER sc = tokenizer_init(s, rd);
  __CPROVER_assume(sc != 0);
  tokenizer_enable_space(sc);
  int n = 0;
  for (int i = 0; i < MAXTOK; ++i) {
    int t = 0; const char *tx = 0;
    tokenizer_lex(sc, &t, &tx);
    if (t <= 0) break;
    out[n].code = t; int l = 0; for (; l < N && tx[l]; ++l) out[n].text[l] = tx[l]; out[n].text[l] = 0; out[n].len = l;
    n++;
  }
  return n;
}
int main(void) {
  struct src a, b;
  for (int i = 0; i < N; ++i) { unsigned char c = nondet_uchar(); __CPROVER_assume(c != 0 && c != '\r' && c != '\n'); a.text[i] = (char)c; b.text[i] = (char)c; }
  a.text[N] = 0; b.text[N] = 0; a.pos = b.pos = 0; a.split = 0;
  int k = K; b.split = k;
  struct tok ta[MAXTOK], tb[MAXTOK];
  int na = collect(&a, ta);
  int nb = collect(&b, tb);
#ifdef WITNESS
  __CPROVER_assert(0, "witness reachable");
#endif
  /* is k a token boundary of the whole-text scan? */
  int acc = 0; _Bool boundary = 0;
  for (int i = 0; i < na && i < MAXTOK; ++i) { acc += ta[i].len; if (acc == k) boundary = 1; }
  if (boundary) {
    __CPROVER_assert(na == nb, "C13-P1: same token count when the fragment boundary is a token boundary");
    if (na == nb) for (int i = 0; i < na && i < MAXTOK; ++i) {
      __CPROVER_assert(ta[i].code == tb[i].code, "C13-P1: same token code");
      __CPROVER_assert(ta[i].len == tb[i].len, "C13-P1: same token length");
    }
  } else {
    __CPROVER_assert(na == nb, "C13-P2: same token count when a lexeme straddles the fragment boundary");
  }
  return 0;
}
