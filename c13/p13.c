#include "dfa_tables.h"
#ifndef N
#define N 3
#endif
unsigned char nondet_uchar(void);
struct tok { int code, start, len; };
static unsigned char t[N];
/* tokenise chunk [b,e); state (cond) carried in *cond */
static int cond_at_k = -1;      /* whole scan: start condition in force at offset K (inside a token: the one the token was scanned in) */
static int chunk(int b, int e, int *cond, struct tok *out, int n) {
  int pos = b; int bol = 1;
  for (int it = 0; it < N && pos < e; ++it) {
    int st = 1 + 2 * (*cond) + bol, last_st = 0, last_len = 0, len = 0;
    for (int i = pos; i < e; ++i) {
      if (vx_accept[st]) { last_st = st; last_len = len; }
      st = vx_next[st][vx_ec[t[i]]]; ++len;
      if (vx_jam[st]) break;
    }
    int a = vx_accept[st];
    if (a == 0) { st = last_st; len = last_len; a = vx_accept[st]; }
    __CPROVER_assert(len > 0 && a > 0 && a <= VX_NRULES, "C13: scanner always makes progress with a rule");
    int code = act_tab[a].tok; if (code == -28) code = t[pos];
    if (b == 0 && e == N && pos < K && K < pos + len) cond_at_k = *cond;
    if (act_tab[a].pop) *cond = 0; else if (act_tab[a].push) *cond = act_tab[a].push;
    out[n].code = code; out[n].start = pos; out[n].len = len; ++n;
    if (b == 0 && e == N && pos + len == K) cond_at_k = *cond;
    bol = (t[pos + len - 1] == '\n');
    pos += len;
  }
  /* the fragment is a buffer of its own: its end runs the <<EOF>> action of the current start condition */
  if (eof_tab[*cond].pop) *cond = 0; else if (eof_tab[*cond].push) *cond = eof_tab[*cond].push;
  return n;
}
int main(void) {
  /* text bytes: anything but NUL (C strings), CR (removed by the readers) and LF (a reader delivery always ends at LF,
     so a fragment boundary inside a line has no LF before it) */
  for (int i = 0; i < N; ++i) { t[i] = nondet_uchar(); __CPROVER_assume(t[i] != 0 && t[i] != '\r' && t[i] != '\n'); }
  /* known-finding region: the second fragment starts (after blanks) with '#': rule ^[ \t]*#.* fires although it is not a line start */
  _Bool bolhash = 0; { _Bool blank = 1; for (int i = K; i < N; ++i) { if (blank && t[i] == '#') bolhash = 1; if (t[i] != ' ' && t[i] != '\t') blank = 0; } }
#ifdef EXCL_BOL
  __CPROVER_assume(!bolhash);
#endif
#ifdef ONLY_BOL
  __CPROVER_assume(bolhash);
#endif
  struct tok A[N+1], B[N+1]; int ca = 0, cb = 0;
  int na = chunk(0, N, &ca, A, 0);
  int nb = chunk(0, K, &cb, B, 0); int cond_after_first = cb; nb = chunk(K, N, &cb, B, nb);
  _Bool boundary = 0; for (int i = 0; i < na; ++i) if (A[i].start + A[i].len == K) boundary = 1;
  _Bool same = (na == nb);
  for (int i = 0; i < N; ++i) if (i < na && i < nb) same = same && A[i].code == B[i].code && A[i].start == B[i].start && A[i].len == B[i].len;
  __CPROVER_assert(0, "WITNESS reachable");
#ifdef P3
  /* (inside a lexeme the known lexeme split also changes the condition, e.g. the doubled quote "" of a literal cut in two) */
  __CPROVER_assert(!boundary || cond_after_first == cond_at_k, "C13-P3: being inside a string literal / comment (the start condition) is carried unchanged over a fragment boundary that falls between two tokens");
#elif defined(P1)
  __CPROVER_assert(!boundary || same, "C13-P1: fragment boundary on a token boundary gives the same tokens");
#else
  __CPROVER_assert(boundary || same, "C13-P2: fragment boundary inside a lexeme gives the same tokens");
#endif
  return 0;
}
