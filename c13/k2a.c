#include <stddef.h>
typedef void* yyscan_t;
int _tokenizerlex(yyscan_t yyscanner);
#define YY_DECL int vx_real_yylex(yyscan_t yyscanner)
#include "lex._tokenizer.c"
int nondet_int(void);
static int calls, eof_after;
int _tokenizerlex(yyscan_t yyscanner) { int r = nondet_int(); __CPROVER_assume(r >= 0 && r <= 400); ++calls; return r; }
static int reads, deliver[3];
static void rd(void *h, char *buf, int *len, int maxsize) {
  __CPROVER_assert(maxsize == 1023, "reader is asked for at most 1023 bytes");
  int n = nondet_int(); __CPROVER_assume(n >= 0 && n <= maxsize);
  if (reads >= 2) n = 0;
  if (reads < 3) deliver[reads] = n;
  ++reads; *len = n;          /* buf content: whatever is there (arbitrary) */
}
int main(void) {
  TOKEN_SCANNER sc = tokenizer_init(0, rd);
  __CPROVER_assume(sc != 0);
  if (nondet_int()) tokenizer_enable_space(sc);
  int st0 = tokenizer_state(sc);
  for (int i = 0; i < 3; ++i) {
    int t = -7; const char *tx = 0; int r0 = reads;
    tokenizer_lex(sc, &t, &tx);
    __CPROVER_assert(t >= 0, "token code or EOF");
    if (t == 0) { __CPROVER_assert(reads > r0 && deliver[reads - 1 < 3 ? reads - 1 : 2] == 0, "EOF only after the reader delivered nothing"); break; }
    __CPROVER_assert(tx != 0, "token text set");
    __CPROVER_assert(t != TOKEN_SPACE || sc->enable_space, "spaces skipped unless enabled");
  }
  __CPROVER_assert(tokenizer_state(sc) == st0, "driver does not touch the start condition");
  tokenizer_free(sc);
  return 0;
}
