/* C13-K2a: the real chunk driver (tokenizer_buf / tokenizer_lex of the current lex._tokenizer.c) under CBMC.
 * yylex is replaced through YY_DECL by a stub returning arbitrary token codes; yy_scan_string / yy_delete_buffer
 * bodies are removed by goto-instrument and supplied by c13/k2a_stubs.c (record what the driver hands over). */
#include <stddef.h>
typedef void* yyscan_t;
int _tokenizerlex(yyscan_t yyscanner);
#define YY_DECL int vx_real_yylex(yyscan_t yyscanner)
#include "lex._tokenizer.c"
int nondet_int(void);
static int calls, spaces_in_row;
int _tokenizerlex(yyscan_t yyscanner) {
  int r = nondet_int(); __CPROVER_assume(r >= 0 && r <= 400); ++calls;
  if (r == TOKEN_SPACE) { ++spaces_in_row; if (spaces_in_row > 1) r = TOKEN_KEYWORD; } else spaces_in_row = 0;   /* bound: at most one skipped space in a row */
  return r; }
extern int vx_scan_calls, vx_scan_len, vx_scan_terminated, vx_deleted;
static int reads, deliver[4]; int vx_expected_len;
static void rd(void *h, char *buf, int *len, int maxsize) {
  __CPROVER_assert(maxsize == 1023, "C13: the reader is asked for at most 1023 bytes (buffer of 1024 with terminator)");
  int n = nondet_int(); __CPROVER_assume(n >= 0 && n <= maxsize);
  if (reads >= 2) n = 0;
  if (reads < 4) deliver[reads] = n;
  for (int i = 0; i < 4; ++i) if (i < n) buf[i] = 'x';      /* content beyond is whatever is there */
  ++reads; *len = n; vx_expected_len = n;
}
int main(void) {
  TOKEN_SCANNER sc = tokenizer_init(0, rd);
  __CPROVER_assume(sc != 0);
  if (nondet_int()) tokenizer_enable_space(sc);
  int st0 = tokenizer_state(sc);
  for (int i = 0; i < 3; ++i) {
    int t = -7; const char *tx = 0; int r0 = reads, s0 = vx_scan_calls;
    tokenizer_lex(sc, &t, &tx);
    __CPROVER_assert(t >= 0, "C13: token code or EOF");
    if (reads > r0 && deliver[reads - 1 < 4 ? reads - 1 : 3] > 0) {
      __CPROVER_assert(vx_scan_calls == s0 + (reads - r0) && vx_scan_len == deliver[reads - 1 < 4 ? reads - 1 : 3] && vx_scan_terminated, "C13: every delivered fragment is handed to the scanner whole and NUL-terminated in bounds");
    }
    if (t == 0) { __CPROVER_assert(reads > r0 && deliver[reads - 1 < 4 ? reads - 1 : 3] == 0, "C13: EOF only after the reader delivered nothing"); break; }
    __CPROVER_assert(t != TOKEN_SPACE || sc->enable_space, "C13: spaces skipped unless enabled");
  }
  __CPROVER_assert(0, "WITNESS reachable");
  __CPROVER_assert(tokenizer_state(sc) == st0, "C13: the driver does not touch the start condition (LITERAL/COMMENT survive a fragment switch)");
  return 0;
}
