#include "dfa_tables.h"
#ifndef N
#define N 3
#endif
unsigned char nondet_uchar(void);
static const struct { int tok; int push; int pop; } act_tab[31] = { {0,0,0},{309,1,0},{311,0,1},{310,0,0},{306,2,0},{308,0,1},{307,0,0},{312,0,0},{313,0,0},{302,0,0},{314,0,0},{303,0,0},{304,0,0},{301,0,0},
 {320,0,0},{321,0,0},{322,0,0},{325,0,0},{325,0,0},{330,0,0},{331,0,0},{332,0,0},{333,0,0},{334,0,0},{335,0,0},{336,0,0},{337,0,0},{305,0,0},{-28,0,0},{-29,0,0},{0,0,0} };
struct tok { int code, start, len; };
static unsigned char t[N];
/* tokenise chunk [b,e); state (cond) carried in *cond */
static int chunk(int b, int e, int *cond, struct tok *out, int n) {
  int pos = b; int bol = 1;
  for (int it = 0; it < N && pos < e; ++it) {
    int st = 1 + 2 * (*cond) + bol, last_st = 0, last_len = 0, len = 0;
    for (int i = pos; i < e; ++i) {
      if (vx_accept[st]) { last_st = st; last_len = len; }
      st = vx_next[st][vx_ec[t[i]]]; ++len;
      if (vx_jam[st]) break;
    }
    int a = vx_accept[st];
    if (a == 0) { st = last_st; len = last_len; a = vx_accept[st]; }
    __CPROVER_assert(len > 0 && a > 0 && a < 29, "scanner always makes progress with a rule");
    int code = act_tab[a].tok; if (code == -28) code = t[pos];
    if (act_tab[a].pop) *cond = 0; else if (act_tab[a].push) *cond = act_tab[a].push;
    out[n].code = code; out[n].start = pos; out[n].len = len; ++n;
    bol = (t[pos + len - 1] == '\n');
    pos += len;
  }
  return n;
}
int main(void) {
  for (int i = 0; i < N; ++i) { t[i] = nondet_uchar(); __CPROVER_assume(t[i] != 0 && t[i] != 13 && t[i] != 10 && t[i] != 35); }
  struct tok A[N+1], B[N+1]; int ca = 0, cb = 0;
  int na = chunk(0, N, &ca, A, 0);
  int nb = chunk(0, K, &cb, B, 0); nb = chunk(K, N, &cb, B, nb);
  _Bool boundary = 0; for (int i = 0; i < na; ++i) if (A[i].start + A[i].len == K) boundary = 1;
  _Bool same = (na == nb);
  for (int i = 0; i < N; ++i) if (i < na && i < nb) same = same && A[i].code == B[i].code && A[i].start == B[i].start && A[i].len == B[i].len;
#ifdef P1
  __CPROVER_assert(!boundary || same, "C13-P1: fragment boundary on a token boundary gives the same tokens");
#else
  __CPROVER_assert(boundary || same, "C13-P2: fragment boundary inside a lexeme gives the same tokens");
#endif
  return 0;
}
