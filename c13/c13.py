import json, sys, time
from z3 import *
d = json.load(open('dfa.json'))
NS, NC, EOB = d['ns'], d['nc'], d['eob']
N = int(sys.argv[1])
# act -> (token, push, pop)   (from the rule switch of the generated scanner)
TOK = {1:(309,1,0),2:(311,0,1),3:(310,0,0),4:(306,2,0),5:(308,0,1),6:(307,0,0),7:(312,0,0),8:(313,0,0),9:(302,0,0),10:(314,0,0),11:(303,0,0),12:(304,0,0),13:(301,0,0),
       14:(320,0,0),15:(321,0,0),16:(322,0,0),17:(325,0,0),18:(325,0,0),19:(330,0,0),20:(331,0,0),21:(332,0,0),22:(333,0,0),23:(334,0,0),24:(335,0,0),25:(336,0,0),26:(337,0,0),27:(305,0,0)}
def lut(table, idx, width=8):
    # balanced If-tree lookup of a python list by a z3 bit-vector index
    def go(lo, hi):
        if hi - lo == 1: return BitVecVal(table[lo], 16)
        mid = (lo + hi) // 2
        return If(ULT(idx, BitVecVal(mid, idx.size())), go(lo, mid), go(mid, hi))
    return go(0, len(table))
flat = [x for row in d['next'] for x in row]
def nxt(st, cls): return lut(flat, st * BitVecVal(NC, 16) + cls)
def ec(c): return lut(d['ec'], c)
def acc(st): return lut(d['accept'], st)
def jam(st): return lut(d['jam'], st) == 1
t = [BitVec('t%d' % i, 8) for i in range(N)]
cls = [ec(c) for c in t]
def scan(p, end, cond, bol):
    """one yylex call on chunk [.., end) from concrete position p; cond/bol z3 values. returns (len, act) as z3 terms"""
    st = (BitVecVal(1, 16) + 2 * ZeroExt(8, cond)) + If(bol, BitVecVal(1, 16), BitVecVal(0, 16))
    last_st = BitVecVal(0, 16); last_len = BitVecVal(0, 16)
    done = BoolVal(False); n = BitVecVal(0, 16)
    for i in range(p, end):
        a_here = acc(st) != 0
        last_st = If(And(Not(done), a_here), st, last_st); last_len = If(And(Not(done), a_here), BitVecVal(i - p, 16), last_len)
        st2 = nxt(st, cls[i])
        n = If(done, n, BitVecVal(i - p + 1, 16))
        st = If(done, st, st2)
        done = Or(done, jam(st))
    a = acc(st)
    ln = If(a == 0, last_len, n)
    a = If(a == 0, acc(last_st), a)
    return ln, a
def tokenize(chunks):
    """chunks: list of (begin,end) concrete. returns list of (valid, tokcode, start, len) z3 terms, length N+len(chunks)"""
    out = []
    cond = BitVecVal(0, 8)
    for (b, e) in chunks:
        pos = BitVecVal(b, 16); bol = BoolVal(True)
        for k in range(e - b):
            # candidates for each concrete position
            ln = BitVecVal(0, 16); a = BitVecVal(0, 16); lastc = BitVecVal(0, 8)
            for p in range(b, e):
                l_p, a_p = scan(p, e, cond, bol)
                ln = If(pos == p, l_p, ln); a = If(pos == p, a_p, a)
            active = ULT(pos, BitVecVal(e, 16))
            # last char of token for bol
            for p in range(b, e):
                lastc = If(pos + ln - 1 == p, t[p], lastc)
            tok = BitVecVal(0, 16); push = BitVecVal(0, 8); pop = BoolVal(False)
            for ai, (tk, pu, po) in TOK.items():
                tok = If(a == ai, BitVecVal(tk, 16), tok)
                if pu: push = If(a == ai, BitVecVal(pu, 8), push)
                if po: pop = Or(pop, a == ai)
            tok = If(a == 28, ZeroExt(8, lastc), tok)   # rule 28: the character itself (length 1)
            out.append((active, tok, pos, ln))
            cond = If(active, If(pop, BitVecVal(0, 8), If(push != 0, push, cond)), cond)
            bol = If(active, lastc == 10, bol)
            pos = If(active, pos + ln, pos)
    return out
def seq_equal(A, B):
    # compare the sequences of active tokens (code,start,len); both lists in order, inactive entries are skipped
    # normalise: index of j-th active token
    def nth(L, j):
        cnt = BitVecVal(0, 8); res = (BoolVal(False), BitVecVal(0,16), BitVecVal(0,16), BitVecVal(0,16))
        for (v, tk, st, ln) in L:
            hit = And(v, cnt == j)
            res = (Or(res[0], hit), If(hit, tk, res[1]), If(hit, st, res[2]), If(hit, ln, res[3]))
            cnt = If(v, cnt + 1, cnt)
        return res
    eqs = []
    for j in range(N):
        a = nth(A, j); b = nth(B, j)
        eqs.append(And(a[0] == b[0], Implies(a[0], And(a[1] == b[1], a[2] == b[2], a[3] == b[3]))))
    return And(eqs)
s = Solver()
for c in t: s.add(c != 0, c != 13, c != 10)
whole = tokenize([(0, N)])
res = {}
for k in range(1, N):
    frag = tokenize([(0, k), (k, N)])
    boundary = Or([And(v, st + ln == k) for (v, tk, st, ln) in whole])
    for name, pre in (("P1 split at token boundary", boundary), ("P2 split inside a lexeme", Not(boundary))):
        s.push(); s.add(pre, Not(seq_equal(whole, frag)))
        t0 = time.time(); r = s.check(); dt = time.time() - t0
        w = ''
        if r == sat:
            m = s.model(); w = bytes([m.eval(c, model_completion=True).as_long() for c in t])
        print("N=%d k=%d %-28s %s %s %.1fs" % (N, k, name, "VIOLATED" if r == sat else "holds" if r == unsat else r, w, dt)); sys.stdout.flush()
        s.pop()
