/* bodies for the two flex buffer functions cut out of the chunk-driver kernel */
typedef struct yy_buffer_state *YY_BUFFER_STATE; typedef void* yyscan_t;
int vx_scan_calls, vx_scan_len, vx_scan_terminated, vx_deleted;
static char dummy_buf[8];
YY_BUFFER_STATE _tokenizer_scan_string(const char *s, yyscan_t sc) {
  extern int vx_expected_len;
  vx_scan_calls++; vx_scan_len = vx_expected_len; vx_scan_terminated = (s[vx_expected_len] == 0);   /* the read is bounds-checked by CBMC */
  return (YY_BUFFER_STATE)dummy_buf; }
void _tokenizer_delete_buffer(YY_BUFFER_STATE b, yyscan_t sc) { vx_deleted++; }
