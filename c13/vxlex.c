/* real flex file with its yylex renamed; compact table-driven replacement appended */
#include <stddef.h>
typedef void* yyscan_t;
int _tokenizerlex(yyscan_t yyscanner);
#define YY_DECL int vx_real_yylex(yyscan_t yyscanner)
#include "lex._tokenizer.c"

#ifndef VX_USE_REAL
#include "dfa_tables.h"      /* generated from the current lex._tokenizer.c: vx_next (uncompressed), act_tab (rule -> token, push, pop) */
#define vx_act act_tab
int _tokenizerlex(yyscan_t yyscanner)
{
  struct yyguts_t * yyg = (struct yyguts_t*)yyscanner;
  if (!yyg->yy_init) { yyg->yy_init = 1; if (!yyg->yy_start) yyg->yy_start = 1; }
  for (int guard = 0; guard < VX_MAXSKIP; ++guard) {
    char *yy_cp = yyg->yy_c_buf_p, *yy_bp;
    *yy_cp = yyg->yy_hold_char;
    yy_bp = yy_cp;
    /* end of the chunk: yy_scan_string buffers are never refilled */
    if (yy_cp >= &YY_CURRENT_BUFFER_LVALUE->yy_ch_buf[yyg->yy_n_chars]) {
      /* <<EOF>> action of the current start condition (extracted: eof_tab), then yyterminate() */
      int sc = (yyg->yy_start - 1) / 2;
      if (eof_tab[sc].push) yy_push_state(eof_tab[sc].push, yyscanner);
      if (eof_tab[sc].pop) yy_pop_state(yyscanner);
      return 0;
    }
    char *yy_end = &YY_CURRENT_BUFFER_LVALUE->yy_ch_buf[yyg->yy_n_chars];
    int st = yyg->yy_start + YY_AT_BOL();
    int last_st = 0; char *last_cp = 0;
    /* same automaton walk as the generated scanner; the walk stops at the end of the data instead of
       consuming the end-of-buffer NUL and undoing it through yy_get_previous_state (EOB_ACT_LAST_MATCH) */
    while (yy_cp < yy_end) {
      YY_CHAR yy_c = yy_ec[YY_SC_TO_UI(*yy_cp)];
      if (yy_accept[st]) { last_st = st; last_cp = yy_cp; }
#ifdef VX_FLAT
      st = vx_next[st][yy_c];
#else
      while (yy_chk[yy_base[st] + yy_c] != st) { st = (int)yy_def[st]; if (st >= VX_NSTATES) yy_c = yy_meta[yy_c]; }
      st = yy_nxt[yy_base[st] + yy_c];
#endif
      ++yy_cp;
      if (yy_base[st] == VX_JAMBASE) break;
    }
    int act = yy_accept[st];
    if (act == 0) { yy_cp = last_cp; st = last_st; act = yy_accept[st]; }
    /* YY_DO_BEFORE_ACTION */
    yyg->yytext_ptr = yy_bp; yyg->yyleng_r = (int)(yy_cp - yy_bp); yyg->yy_hold_char = *yy_cp; *yy_cp = '\0'; yyg->yy_c_buf_p = yy_cp;
    /* YY_RULE_SETUP: bol tracking */
    if (yyg->yyleng_r > 0) YY_CURRENT_BUFFER_LVALUE->yy_at_bol = (yyg->yytext_ptr[yyg->yyleng_r - 1] == '\n');
    if (act == YY_END_OF_BUFFER) return 0;
    if (vx_act[act].push) yy_push_state(vx_act[act].push, yyscanner);
    if (vx_act[act].pop) yy_pop_state(yyscanner);
    if (vx_act[act].tok > 0) return vx_act[act].tok;
    if (vx_act[act].tok == -28) { if (yyg->yytext_ptr[0] != 0) return (unsigned char)yyg->yytext_ptr[0]; }
    /* -29: ECHO, keep scanning */
  }
  return -1;
}
#endif
