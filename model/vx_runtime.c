/* C model of the C++ runtime / libstdc++ / libc entry points that BLOC's IR calls.
 * This is the trusted environment of every CBMC harness (DESIGN.md 2.3).
 * Model loops have constant trip counts (<= VX_SSO+1) on the short-string path; the
 * driver gives every loop of this file the bound VX_MODEL_UNWIND through --unwindset. */
#include <stdarg.h>
#include <stdint.h>
#include <stddef.h>
void* malloc(size_t); void free(void*); void* memset(void*, int, size_t);
#ifdef VX_NATIVE_SELFTEST
#include "native/cprover_shim.h"
#endif
#include "vx_runtime.h"

#pragma CPROVER check push
#pragma CPROVER check disable "pointer"
#pragma CPROVER check disable "bounds"
#pragma CPROVER check disable "pointer-overflow"
#pragma CPROVER check disable "signed-overflow"
#pragma CPROVER check disable "conversion"

/* ---- harness primitives ---- */
#ifndef VX_NATIVE_SELFTEST
int64_t nondet_long(void); _Bool nondet_bool(void); uint8_t nondet_uchar(void); double nondet_double(void); int nondet_int(void);
int64_t in_long(int k) { int64_t v = nondet_long(); __CPROVER_input("in_long", k, v); return v; }
_Bool in_bool(int k) { _Bool v = nondet_bool(); __CPROVER_input("in_bool", k, v); return v; }
uint8_t in_uchar(int k) { uint8_t v = nondet_uchar(); __CPROVER_input("in_uchar", k, v); return v; }
double in_double(int k) { double v = nondet_double(); __CPROVER_input("in_double", k, v); return v; }
int in_int(int k) { int v = nondet_int(); __CPROVER_input("in_int", k, v); return v; }
#else
int64_t nondet_long(void); _Bool nondet_bool(void); uint8_t nondet_uchar(void); double nondet_double(void); int nondet_int(void);
#endif
int vx_kf_mode[256];   /* 0: ignore, 1: region excluded, 2: region assumed */
void verif_known(int id, _Bool in_region) {
  if (vx_kf_mode[id] == 1) __CPROVER_assume(!in_region);
  else if (vx_kf_mode[id] == 2) __CPROVER_assume(in_region);
}

/* ---- exception ABI (flag protocol, see ir2c) ---- */
_Bool __vx_active = 0;
struct vx_exc_hdr { void* ti; void* dtor; int caught; int rethrown; };
static void* vx_cur = 0;                      /* current in-flight exception object */
#define VX_MAXCAUGHT 4
static void* vx_caught[VX_MAXCAUGHT];
static int vx_ncaught = 0;
int vx_exc_allocated = 0, vx_exc_released = 0;

static struct vx_exc_hdr* hdr(void* obj) { return ((struct vx_exc_hdr*)obj) - 1; }
void* __vx_cur_obj(void) { return vx_cur; }
void* __vx_cur_type(void) { return vx_cur ? hdr(vx_cur)->ti : 0; }
_Bool __vx_isa(void* t, void* c) {
  for (int i = 0; i < 6 && t; ++i) { if (t == c) return 1; t = __vx_ti_base(t); }
  return 0;
}
int __vx_typeid(void* ti) { return ti == 0 ? 1 : (int)(1 + (((uintptr_t)ti) & 0x7fffff)); }
void __vx_landed(void) { __vx_active = 0; }
void __vx_resume(void* obj) { vx_cur = obj; __vx_active = 1; }

void* __cxa_allocate_exception(uint64_t sz) {
  struct vx_exc_hdr* h = (struct vx_exc_hdr*)malloc(sizeof(struct vx_exc_hdr) + sz);
  __CPROVER_assume(h != 0);
  h->ti = 0; h->dtor = 0; h->caught = 0; h->rethrown = 0;
  vx_exc_allocated++;
  return h + 1;
}
void __cxa_free_exception(void* p) { vx_exc_released++; }
void __cxa_throw(void* obj, void* ti, void* dtor) {
  hdr(obj)->ti = ti; hdr(obj)->dtor = dtor;
  vx_cur = obj; __vx_active = 1;
}
void* __cxa_begin_catch(void* obj) {
  __CPROVER_assert(vx_ncaught < VX_MAXCAUGHT, "model bound: nested catch depth");
  vx_caught[vx_ncaught++] = obj; hdr(obj)->caught++;
  __vx_active = 0;
  return obj;
}
void __cxa_end_catch(void) {
  __CPROVER_assert(vx_ncaught > 0, "model bound: end_catch without begin_catch");
  void* obj = vx_caught[--vx_ncaught];
  hdr(obj)->caught--;
  if (hdr(obj)->caught == 0 && !(__vx_active && vx_cur == obj)) vx_exc_released++;
}
void __cxa_rethrow(void) {
  __CPROVER_assert(vx_ncaught > 0, "model bound: rethrow without active handler");
  vx_cur = vx_caught[vx_ncaught - 1]; __vx_active = 1;
}
void _ZSt9terminatev(void) { __CPROVER_assert(0, "C01: std::terminate reached"); __CPROVER_assume(0); }
void __cxa_pure_virtual(void) { __CPROVER_assert(0, "C01: pure virtual call"); __CPROVER_assume(0); }
void __cxa_bad_cast(void) { __CPROVER_assert(0, "C01: bad_cast"); __CPROVER_assume(0); }
int __cxa_guard_acquire(void* g) { return *(char*)g == 0; }
void __cxa_guard_release(void* g) { *(char*)g = 1; }
void __cxa_guard_abort(void* g) { }
int __cxa_atexit(void* f, void* a, void* d) { return 0; }
uint8_t __libc_single_threaded = 1;
uint8_t __dso_handle = 0;

/* operator new / delete (allocation failure is outside every property's domain) */
void* _Znwm(uint64_t n) { void* p = malloc(n ? n : 1); __CPROVER_assume(p != 0); return p; }
void* _Znam(uint64_t n) { void* p = malloc(n ? n : 1); __CPROVER_assume(p != 0); return p; }
void _ZdlPv(void* p) { free(p); }
void _ZdaPv(void* p) { free(p); }
void _ZdlPvm(void* p, uint64_t n) { free(p); }

/* std::exception */
void _ZNSt9exceptionD2Ev(void* self) { }
void _ZNSt9exceptionD1Ev(void* self) { }
const char* _ZNKSt9exception4whatEv(void* self) { return "std::exception"; }

/* libstdc++ throw helpers: throw a payload-less object of the right std type */
void* __vx_std_ti(int k);
enum { TI_EXC, TI_LOGIC, TI_RUNTIME, TI_OOR, TI_INVARG, TI_LENGTH, TI_BADALLOC, TI_BADARRAY };
static void vx_throw_std(int k) { void* o = __cxa_allocate_exception(16); memset(o, 0, 16); __cxa_throw(o, __vx_std_ti(k), 0); }
void _ZSt20__throw_length_errorPKc(void* m) { vx_throw_std(TI_LENGTH); }
void _ZSt17__throw_bad_allocv(void) { vx_throw_std(TI_BADALLOC); }
void _ZSt28__throw_bad_array_new_lengthv(void) { vx_throw_std(TI_BADARRAY); }
void _ZSt24__throw_out_of_range_fmtPKcz(void* fmt, ...) { vx_throw_std(TI_OOR); }
void _ZSt20__throw_out_of_rangePKc(void* m) { vx_throw_std(TI_OOR); }
void _ZSt24__throw_invalid_argumentPKc(void* m) { vx_throw_std(TI_INVARG); }

/* ---- bounded byte helpers ---- */
#define VX_SSO 15
_Bool vx_truncated = 0;
/* instances built with short_strings (the default) never need the heap path of the string model: reaching it is a
 * loud harness error ("model bound"), and symbolic execution does not have to walk its loops */
#ifdef VX_SHORT_ONLY
#define VX_LONG(n) do { __CPROVER_assert((n) <= VX_SSO, "model bound: string longer than 15 bytes in a short_strings instance"); __CPROVER_assume((n) <= VX_SSO); } while (0)
#else
#define VX_LONG(n) do { } while (0)
#endif
#ifdef VX_SHORT_ONLY
#define VX_NOLONG(ret) do { __CPROVER_assert(0, "model bound: long-string path reached in a short_strings instance"); __CPROVER_assume(0); return ret; } while (0)
#else
#define VX_NOLONG(ret) do { } while (0)
#endif
/* every loop below is constant-trip (16) unless named *_long */
static void vx_cpy_long(char* d, const char* s, uint64_t n) { for (uint64_t i = 0; i < n; ++i) d[i] = s[i]; }
static uint64_t vx_strlen_long(const char* s) { uint64_t n = 16; while (s[n]) ++n; return n; }
uint64_t vx_strlen(const char* s) {
  for (int i = 0; i < 16; ++i) if (s[i] == 0) return (uint64_t)i;
#ifdef VX_TRUNC
  vx_truncated = 1; return 15;
#endif
  VX_LONG(16);
#ifdef VX_SHORT_ONLY
  return 16;
#else
  return vx_strlen_long(s);
#endif
}
uint64_t strlen(const char* s) { return vx_strlen(s); }
int vx_memcmp(const unsigned char* a, const unsigned char* b, uint64_t n) {
  if (n <= 16) {
    int r = 0;
    for (int i = 15; i >= 0; --i) if ((uint64_t)i < n && a[i] != b[i]) r = a[i] < b[i] ? -1 : 1;
    return r;
  }
  VX_NOLONG(0);
  for (uint64_t i = 0; i < n; ++i) if (a[i] != b[i]) return a[i] < b[i] ? -1 : 1;   /* long path */
  return 0;
}
int memcmp(const void* a, const void* b, size_t n) { return vx_memcmp((const unsigned char*)a, (const unsigned char*)b, n); }
int strcmp(const char* a, const char* b) {
  uint64_t la = vx_strlen(a), lb = vx_strlen(b); uint64_t m = la < lb ? la : lb;
  int r = vx_memcmp((const unsigned char*)a, (const unsigned char*)b, m);
  return r ? r : (la < lb ? -1 : la > lb ? 1 : 0);
}
int strncmp(const char* a, const char* b, size_t n) {
  uint64_t la = vx_strlen(a), lb = vx_strlen(b); if (la > n) la = n; if (lb > n) lb = n; uint64_t m = la < lb ? la : lb;
  int r = vx_memcmp((const unsigned char*)a, (const unsigned char*)b, m);
  return r ? r : (la < lb ? -1 : la > lb ? 1 : 0);
}
char* strchr(const char* s, int c) {
  uint64_t n = vx_strlen(s);
  if (n <= 15) { const char* r = 0; for (int i = 15; i >= 0; --i) if ((uint64_t)i <= n && s[i] == (char)c) r = s + i; return (char*)r; }
  VX_NOLONG(0);
  for (uint64_t i = 0; i <= n; ++i) if (s[i] == (char)c) return (char*)s + i;
  return 0;
}
char* strrchr(const char* s, int c) {
  uint64_t n = vx_strlen(s);
  if (n <= 15) { const char* r = 0; for (int i = 0; i < 16; ++i) if ((uint64_t)i <= n && s[i] == (char)c) r = s + i; return (char*)r; }
  VX_NOLONG(0);
  const char* r = 0; for (uint64_t i = 0; i <= n; ++i) if (s[i] == (char)c) r = s + i;
  return (char*)r;
}

/* ---- std::string (libstdc++ cxx11 ABI layout, SSO honoured) ---- */
struct vx_str { char* p; uint64_t len; union { char local[16]; uint64_t cap; } u; };
/* data pointer: in short-string instances every string lives in its own SSO buffer, so the model never goes through
 * the stored pointer (keeps CBMC's pointer analysis precise for strings inside containers) */
#ifdef VX_SHORT_ONLY
#define DP(x) ((x)->u.local)
#else
#define DP(x) ((x)->p)
#endif
#define S(x) ((struct vx_str*)(x))
#define NPOS 0xffffffffffffffffUL
static uint64_t vx_str_cap(struct vx_str* s) { return DP(s) == s->u.local ? 15 : s->u.cap; }
static void vx_str_init(struct vx_str* s, const char* src, uint64_t n) {
#ifdef VX_TRUNC
  /* instances built with truncate_long: a string constructed from more than 15 bytes keeps its first 15 (only
   * error-message texts are that long in those kernels; the flag lets a harness assert it did not happen) */
  if (n > VX_SSO) { n = VX_SSO; vx_truncated = 1; }
#endif
  VX_LONG(n);
#ifndef VX_SHORT_ONLY
  if (n > VX_SSO) {
    s->p = (char*)malloc(n + 1); __CPROVER_assume(DP(s) != 0); s->u.cap = n;
    vx_cpy_long(DP(s), src, n); DP(s)[n] = 0; s->len = n; return;
  }
#endif
  s->p = s->u.local;
  for (int i = 0; i < 16; ++i) s->u.local[i] = ((uint64_t)i < n) ? src[i] : 0;
  s->len = n;
}
/* replace [pos, pos+del) of s by ins[0..m): the one mutation primitive */
static void vx_splice(struct vx_str* s, uint64_t pos, uint64_t del, const char* ins, uint64_t m) {
  uint64_t old = s->len, nl = old - del + m;
  VX_LONG(nl);
#ifdef VX_SHORT_ONLY
  __CPROVER_assume(DP(s) == s->u.local);
#endif
  if (DP(s) == s->u.local && nl <= VX_SSO) {
    char t[16];
    for (int i = 0; i < 16; ++i) {
      uint64_t k = (uint64_t)i;
      t[i] = k < pos ? s->u.local[i] : k < pos + m ? ins[k - pos] : k < nl ? s->u.local[(k - m + del) & 15] : 0;
    }
    for (int i = 0; i < 16; ++i) s->u.local[i] = t[i];
    s->len = nl; return;
  }
#ifdef VX_SHORT_ONLY
  return;
#endif
  /* long path */
  uint64_t cap = vx_str_cap(s), nc = nl <= cap ? cap : (nl < 2 * cap ? 2 * cap : nl);
  char* np = (char*)malloc(nc + 1); __CPROVER_assume(np != 0);
  vx_cpy_long(np, DP(s), pos);
  vx_cpy_long(np + pos, ins, m);
  vx_cpy_long(np + pos + m, DP(s) + pos + del, old - pos - del);
  np[nl] = 0;
  if (DP(s) != s->u.local) free(DP(s));
  s->p = np; s->u.cap = nc; s->len = nl;
}
static void vx_str_set(struct vx_str* s, const char* src, uint64_t n) { vx_splice(s, 0, s->len, src, n); }
static void vx_str_append(struct vx_str* s, const char* src, uint64_t n) { vx_splice(s, s->len, 0, src, n); }
static void vx_str_fill(struct vx_str* s, uint64_t pos, uint64_t del, uint64_t n, char c) {
  if (n <= 16) { char t[16]; for (int i = 0; i < 16; ++i) t[i] = c; vx_splice(s, pos, del, t, n); return; }
  VX_NOLONG();
  char* t = (char*)malloc(n); __CPROVER_assume(t != 0);
  for (uint64_t i = 0; i < n; ++i) t[i] = c;   /* long path */
  vx_splice(s, pos, del, t, n); free(t);
}
#define STR "_ZNSt7__cxx1112basic_stringIcSt11char_traitsIcESaIcEE"
void _ZNSt7__cxx1112basic_stringIcSt11char_traitsIcESaIcEEC1Ev(void* s) { vx_str_init(S(s), "", 0); }
void _ZNSt7__cxx1112basic_stringIcSt11char_traitsIcESaIcEEC2Ev(void* s) { vx_str_init(S(s), "", 0); }
void _ZNSt7__cxx1112basic_stringIcSt11char_traitsIcESaIcEEC1EPKcRKS3_(void* s, void* c, void* a) { vx_str_init(S(s), (const char*)c, vx_strlen((const char*)c)); }
void _ZNSt7__cxx1112basic_stringIcSt11char_traitsIcESaIcEEC2EPKcRKS3_(void* s, void* c, void* a) { vx_str_init(S(s), (const char*)c, vx_strlen((const char*)c)); }
void _ZNSt7__cxx1112basic_stringIcSt11char_traitsIcESaIcEEC1EPKcmRKS3_(void* s, void* c, uint64_t n, void* a) { vx_str_init(S(s), (const char*)c, n); }
void _ZNSt7__cxx1112basic_stringIcSt11char_traitsIcESaIcEEC2EPKcmRKS3_(void* s, void* c, uint64_t n, void* a) { vx_str_init(S(s), (const char*)c, n); }
void _ZNSt7__cxx1112basic_stringIcSt11char_traitsIcESaIcEEC1ERKS4_(void* s, void* o) { vx_str_init(S(s), DP(S(o)), S(o)->len); }
void _ZNSt7__cxx1112basic_stringIcSt11char_traitsIcESaIcEEC2ERKS4_(void* s, void* o) { vx_str_init(S(s), DP(S(o)), S(o)->len); }
static void vx_str_move(struct vx_str* s, struct vx_str* o) {
#ifdef VX_SHORT_ONLY
  __CPROVER_assume(DP(o) == o->u.local);
#endif
#ifdef VX_SHORT_ONLY
  { s->p = s->u.local; for (int i = 0; i < 16; ++i) s->u.local[i] = o->u.local[i]; s->len = o->len; }
#else
  if (DP(o) == o->u.local) { s->p = s->u.local; for (int i = 0; i < 16; ++i) s->u.local[i] = o->u.local[i]; s->len = o->len; }
  else { s->p = DP(o); s->len = o->len; s->u.cap = o->u.cap; o->p = o->u.local; }
#endif
  o->len = 0; o->u.local[0] = 0;
}
void _ZNSt7__cxx1112basic_stringIcSt11char_traitsIcESaIcEEC1EOS4_(void* s, void* o) { vx_str_move(S(s), S(o)); }
void _ZNSt7__cxx1112basic_stringIcSt11char_traitsIcESaIcEEC2EOS4_(void* s, void* o) { vx_str_move(S(s), S(o)); }
void _ZNSt7__cxx1112basic_stringIcSt11char_traitsIcESaIcEEC1EmcRKS3_(void* s, uint64_t n, uint8_t c, void* a) { vx_str_init(S(s), "", 0); vx_str_fill(S(s), 0, 0, n, (char)c); }
void _ZNSt7__cxx1112basic_stringIcSt11char_traitsIcESaIcEEC2EmcRKS3_(void* s, uint64_t n, uint8_t c, void* a) { vx_str_init(S(s), "", 0); vx_str_fill(S(s), 0, 0, n, (char)c); }
#ifdef VX_SHORT_ONLY
void _ZNSt7__cxx1112basic_stringIcSt11char_traitsIcESaIcEED1Ev(void* s) { }
void _ZNSt7__cxx1112basic_stringIcSt11char_traitsIcESaIcEED2Ev(void* s) { }
#else
void _ZNSt7__cxx1112basic_stringIcSt11char_traitsIcESaIcEED1Ev(void* s) { if (DP(S(s)) != S(s)->u.local) free(DP(S(s))); }
void _ZNSt7__cxx1112basic_stringIcSt11char_traitsIcESaIcEED2Ev(void* s) { if (DP(S(s)) != S(s)->u.local) free(DP(S(s))); }
#endif
void* _ZNKSt7__cxx1112basic_stringIcSt11char_traitsIcESaIcEE5c_strEv(void* s) { return DP(S(s)); }
void* _ZNKSt7__cxx1112basic_stringIcSt11char_traitsIcESaIcEE4dataEv(void* s) { return DP(S(s)); }
uint64_t _ZNKSt7__cxx1112basic_stringIcSt11char_traitsIcESaIcEE4sizeEv(void* s) { return S(s)->len; }
uint64_t _ZNKSt7__cxx1112basic_stringIcSt11char_traitsIcESaIcEE6lengthEv(void* s) { return S(s)->len; }
_Bool _ZNKSt7__cxx1112basic_stringIcSt11char_traitsIcESaIcEE5emptyEv(void* s) { return S(s)->len == 0; }
void* _ZNKSt7__cxx1112basic_stringIcSt11char_traitsIcESaIcEE3endEv(void* s) { return DP(S(s)) + S(s)->len; }
void* _ZNSt7__cxx1112basic_stringIcSt11char_traitsIcESaIcEE3endEv(void* s) { return DP(S(s)) + S(s)->len; }
void* _ZNKSt7__cxx1112basic_stringIcSt11char_traitsIcESaIcEE5beginEv(void* s) { return DP(S(s)); }
void* _ZNSt7__cxx1112basic_stringIcSt11char_traitsIcESaIcEE5beginEv(void* s) { return DP(S(s)); }
void* _ZNKSt7__cxx1112basic_stringIcSt11char_traitsIcESaIcEE5frontEv(void* s) { return DP(S(s)); }
void* _ZNSt7__cxx1112basic_stringIcSt11char_traitsIcESaIcEE4backEv(void* s) { return DP(S(s)) + (S(s)->len - 1); }
void* _ZNSt7__cxx1112basic_stringIcSt11char_traitsIcESaIcEEixEm(void* s, uint64_t i) { __CPROVER_assert(i <= S(s)->len, "C01: std::string operator[] index within [0, size]"); return DP(S(s)) + i; }
void* _ZNKSt7__cxx1112basic_stringIcSt11char_traitsIcESaIcEEixEm(void* s, uint64_t i) { __CPROVER_assert(i <= S(s)->len, "C01: std::string operator[] index within [0, size]"); return DP(S(s)) + i; }
void* _ZNSt7__cxx1112basic_stringIcSt11char_traitsIcESaIcEE2atEm(void* s, uint64_t i) { if (i >= S(s)->len) { vx_throw_std(TI_OOR); return DP(S(s)); } return DP(S(s)) + i; }
void _ZNSt7__cxx1112basic_stringIcSt11char_traitsIcESaIcEE5clearEv(void* s) { S(s)->len = 0; DP(S(s))[0] = 0; }
void _ZNSt7__cxx1112basic_stringIcSt11char_traitsIcESaIcEE7reserveEm(void* s, uint64_t n) {
  if (n <= vx_str_cap(S(s))) return;
  VX_LONG(n);
  char* np = (char*)malloc(n + 1); __CPROVER_assume(np != 0);
  if (S(s)->len <= 15) { for (int i = 0; i < 16; ++i) np[i] = ((uint64_t)i <= S(s)->len) ? DP(S(s))[i] : 0; } else { VX_NOLONG(); vx_cpy_long(np, DP(S(s)), S(s)->len + 1); }
  if (DP(S(s)) != S(s)->u.local) free(DP(S(s)));
  S(s)->p = np; S(s)->u.cap = n;
}
void _ZNSt7__cxx1112basic_stringIcSt11char_traitsIcESaIcEE6resizeEm(void* s, uint64_t n) { if (n < S(s)->len) vx_splice(S(s), n, S(s)->len - n, "", 0); else vx_str_fill(S(s), S(s)->len, 0, n - S(s)->len, 0); }
void _ZNSt7__cxx1112basic_stringIcSt11char_traitsIcESaIcEE9push_backEc(void* s, uint8_t c) { char ch = (char)c; vx_str_append(S(s), &ch, 1); }
void _ZNSt7__cxx1112basic_stringIcSt11char_traitsIcESaIcEE8pop_backEv(void* s) { __CPROVER_assert(S(s)->len > 0, "C01: pop_back on empty std::string"); vx_splice(S(s), S(s)->len - 1, 1, "", 0); }
void* _ZNSt7__cxx1112basic_stringIcSt11char_traitsIcESaIcEEpLEc(void* s, uint8_t c) { char ch = (char)c; vx_str_append(S(s), &ch, 1); return s; }
void* _ZNSt7__cxx1112basic_stringIcSt11char_traitsIcESaIcEE6appendEPKc(void* s, void* c) { vx_str_append(S(s), (const char*)c, vx_strlen((const char*)c)); return s; }
void* _ZNSt7__cxx1112basic_stringIcSt11char_traitsIcESaIcEE6appendEPKcm(void* s, void* c, uint64_t n) { vx_str_append(S(s), (const char*)c, n); return s; }
void* _ZNSt7__cxx1112basic_stringIcSt11char_traitsIcESaIcEE6appendERKS4_(void* s, void* o) { vx_str_append(S(s), DP(S(o)), S(o)->len); return s; }
void* _ZNSt7__cxx1112basic_stringIcSt11char_traitsIcESaIcEE6appendERKS4_mm(void* s, void* o, uint64_t pos, uint64_t n) {
  if (pos > S(o)->len) { vx_throw_std(TI_OOR); return s; }
  uint64_t rl = S(o)->len - pos; if (n < rl) rl = n;
  vx_str_append(S(s), DP(S(o)) + pos, rl); return s; }
void* _ZNSt7__cxx1112basic_stringIcSt11char_traitsIcESaIcEE6appendEmc(void* s, uint64_t n, uint8_t c) { vx_str_fill(S(s), S(s)->len, 0, n, (char)c); return s; }
void* _ZNSt7__cxx1112basic_stringIcSt11char_traitsIcESaIcEE6assignERKS4_(void* s, void* o) { if (s != o) vx_str_set(S(s), DP(S(o)), S(o)->len); return s; }
void* _ZNSt7__cxx1112basic_stringIcSt11char_traitsIcESaIcEE6assignEPKc(void* s, void* c) { vx_str_set(S(s), (const char*)c, vx_strlen((const char*)c)); return s; }
void* _ZNSt7__cxx1112basic_stringIcSt11char_traitsIcESaIcEE6assignEPKcm(void* s, void* c, uint64_t n) { vx_str_set(S(s), (const char*)c, n); return s; }
void* _ZNSt7__cxx1112basic_stringIcSt11char_traitsIcESaIcEE6assignEmc(void* s, uint64_t n, uint8_t c) { vx_str_fill(S(s), 0, S(s)->len, n, (char)c); return s; }
static void* vx_str_massign(void* s, void* o) {
  if (s == o) return s;
  if (DP(S(s)) != S(s)->u.local) free(DP(S(s)));
  vx_str_move(S(s), S(o)); return s; }
void* _ZNSt7__cxx1112basic_stringIcSt11char_traitsIcESaIcEE6assignEOS4_(void* s, void* o) { return vx_str_massign(s, o); }
void* _ZNSt7__cxx1112basic_stringIcSt11char_traitsIcESaIcEEaSEOS4_(void* s, void* o) { return vx_str_massign(s, o); }
void* _ZNSt7__cxx1112basic_stringIcSt11char_traitsIcESaIcEEaSEPKc(void* s, void* c) { vx_str_set(S(s), (const char*)c, vx_strlen((const char*)c)); return s; }
void* _ZNSt7__cxx1112basic_stringIcSt11char_traitsIcESaIcEEaSERKS4_(void* s, void* o) { if (s != o) vx_str_set(S(s), DP(S(o)), S(o)->len); return s; }
static int vx_str_cmp(const char* a, uint64_t la, const char* b, uint64_t lb) {
  uint64_t m = la < lb ? la : lb;
  int r = vx_memcmp((const unsigned char*)a, (const unsigned char*)b, m);
  return r ? r : (la < lb ? -1 : la > lb ? 1 : 0);
}
int _ZNKSt7__cxx1112basic_stringIcSt11char_traitsIcESaIcEE7compareEPKc(void* s, void* c) { return vx_str_cmp(DP(S(s)), S(s)->len, (const char*)c, vx_strlen((const char*)c)); }
int _ZNKSt7__cxx1112basic_stringIcSt11char_traitsIcESaIcEE7compareERKS4_(void* s, void* o) { return vx_str_cmp(DP(S(s)), S(s)->len, DP(S(o)), S(o)->len); }
int _ZNKSt7__cxx1112basic_stringIcSt11char_traitsIcESaIcEE7compareEmmRKS4_(void* s, uint64_t pos, uint64_t n, void* o) {
  if (pos > S(s)->len) { vx_throw_std(TI_OOR); return 0; }
  uint64_t rl = S(s)->len - pos; if (n < rl) rl = n;
  return vx_str_cmp(DP(S(s)) + pos, rl, DP(S(o)), S(o)->len); }
/* substr: sret pointer first, then this, pos, n */
void _ZNKSt7__cxx1112basic_stringIcSt11char_traitsIcESaIcEE6substrEmm(void* ret, void* s, uint64_t pos, uint64_t n) {
  if (pos > S(s)->len) { vx_throw_std(TI_OOR); return; }
  uint64_t rl = S(s)->len - pos; if (n < rl) rl = n;
  vx_str_init(S(ret), DP(S(s)) + pos, rl);
}
void* _ZNSt7__cxx1112basic_stringIcSt11char_traitsIcESaIcEE7replaceEmmmc(void* s, uint64_t pos, uint64_t n1, uint64_t n2, uint8_t c) {
  if (pos > S(s)->len) { vx_throw_std(TI_OOR); return s; }
  uint64_t rl = S(s)->len - pos; if (n1 < rl) rl = n1;
  vx_str_fill(S(s), pos, rl, n2, (char)c); return s; }
void* _ZNSt7__cxx1112basic_stringIcSt11char_traitsIcESaIcEE6insertEmmc(void* s, uint64_t pos, uint64_t n, uint8_t c) {
  if (pos > S(s)->len) { vx_throw_std(TI_OOR); return s; }
  vx_str_fill(S(s), pos, 0, n, (char)c); return s; }
void* _ZNSt7__cxx1112basic_stringIcSt11char_traitsIcESaIcEE6insertEmRKS4_(void* s, uint64_t pos, void* o) {
  if (pos > S(s)->len) { vx_throw_std(TI_OOR); return s; }
  if (S(o)->len <= 16) { char t[16]; for (int i = 0; i < 16; ++i) t[i] = (uint64_t)i < S(o)->len ? DP(S(o))[i] : 0; vx_splice(S(s), pos, 0, t, S(o)->len); }
  else { VX_NOLONG(s); vx_splice(S(s), pos, 0, DP(S(o)), S(o)->len); }
  return s; }
void* _ZNSt7__cxx1112basic_stringIcSt11char_traitsIcESaIcEE5eraseEN9__gnu_cxx17__normal_iteratorIPKcS4_EE(void* s, void* it) {
  uint64_t pos = (uint64_t)((char*)it - DP(S(s)));
  vx_splice(S(s), pos, 1, "", 0); return DP(S(s)) + pos; }
uint64_t _ZNKSt7__cxx1112basic_stringIcSt11char_traitsIcESaIcEE4findEcm(void* s, uint8_t c, uint64_t pos) {
  uint64_t n = S(s)->len;
  if (n <= 16) { uint64_t r = NPOS; for (int i = 15; i >= 0; --i) if ((uint64_t)i >= pos && (uint64_t)i < n && DP(S(s))[i] == (char)c) r = (uint64_t)i; return r; }
  VX_NOLONG(NPOS);
  for (uint64_t i = pos; i < n; ++i) if (DP(S(s))[i] == (char)c) return i;
  return NPOS; }
static uint64_t vx_str_find(struct vx_str* s, const char* q, uint64_t m, uint64_t pos) {
  uint64_t n = s->len;
  if (m == 0) return pos <= n ? pos : NPOS;
  if (n <= 16) {
    uint64_t r = NPOS;
    for (int i = 15; i >= 0; --i) {
      uint64_t k = (uint64_t)i;
      if (k >= pos && k + m <= n && vx_memcmp((const unsigned char*)s->p + k, (const unsigned char*)q, m) == 0) r = k;
    }
    return r;
  }
  VX_NOLONG(NPOS);
  for (uint64_t i = pos; i + m <= n; ++i) if (vx_memcmp((const unsigned char*)s->p + i, (const unsigned char*)q, m) == 0) return i;
  return NPOS; }
uint64_t _ZNKSt7__cxx1112basic_stringIcSt11char_traitsIcESaIcEE4findERKS4_m(void* s, void* o, uint64_t pos) { return vx_str_find(S(s), DP(S(o)), S(o)->len, pos); }
uint64_t _ZNKSt7__cxx1112basic_stringIcSt11char_traitsIcESaIcEE4findEPKcm(void* s, void* c, uint64_t pos) { return vx_str_find(S(s), (const char*)c, vx_strlen((const char*)c), pos); }
uint64_t _ZNKSt7__cxx1112basic_stringIcSt11char_traitsIcESaIcEE12find_last_ofEcm(void* s, uint8_t c, uint64_t pos) {
  uint64_t n = S(s)->len; if (n == 0) return NPOS; if (pos >= n) pos = n - 1;
  if (n <= 16) { uint64_t r = NPOS; for (int i = 0; i < 16; ++i) if ((uint64_t)i <= pos && DP(S(s))[i] == (char)c) r = (uint64_t)i; return r; }
  VX_NOLONG(NPOS);
  for (uint64_t i = pos + 1; i > 0; --i) if (DP(S(s))[i - 1] == (char)c) return i - 1;
  return NPOS; }
void _ZNSaIcEC1Ev(void* a) { }
void _ZNSaIcED1Ev(void* a) { }
void _ZNSaIcEC2Ev(void* a) { }
void _ZNSaIcED2Ev(void* a) { }
void _ZNSaIcEC1ERKS_(void* a, void* b) { }
void _ZNSaIcEC2ERKS_(void* a, void* b) { }

/* std::list node hooks */
struct vx_lnode { struct vx_lnode* next; struct vx_lnode* prev; };
void _ZNSt8__detail15_List_node_base7_M_hookEPS0_(void* self, void* pos) { struct vx_lnode* n = self; struct vx_lnode* p = pos; n->next = p; n->prev = p->prev; p->prev->next = n; p->prev = n; }
void _ZNSt8__detail15_List_node_base9_M_unhookEv(void* self) { struct vx_lnode* n = self; n->prev->next = n->next; n->next->prev = n->prev; }

/* ---- libc environment ---- */
#ifndef VX_NATIVE_SELFTEST
int dup(int fd) { return fd + 100; }
/* streams: a FILE object names an underlying file (0 stdin, 1 stdout, 2 stderr, 3.. created by vx_io_new); fdopen(dup(fd)) gives a
 * new FILE object on the same file. Every write is logged per file: number of write calls and the first VX_IO_TEXT bytes. */
#define VX_IO_FILES 8
#define VX_IO_STREAMS 16
#define VX_IO_TEXT 48
struct vx_stream { int file; int pad; };
static struct vx_stream vx_streams[VX_IO_STREAMS] = { {0, 0}, {1, 0}, {2, 0} };
static int vx_nstreams = 3, vx_nfiles = 3;
long vx_io_calls[VX_IO_FILES]; long vx_io_len[VX_IO_FILES]; char vx_io_buf[VX_IO_FILES][VX_IO_TEXT];
void* stdin = &vx_streams[0]; void* stdout = &vx_streams[1]; void* stderr = &vx_streams[2];
static int vx_io_file(void* f) {
  if (__CPROVER_POINTER_OBJECT(f) != __CPROVER_POINTER_OBJECT(vx_streams)) return VX_IO_FILES - 1;     /* a stream of the harness (stubbed fopen): last file */
  return ((struct vx_stream*)f)->file;
}
static void* vx_io_stream(int file) {
  __CPROVER_assert(vx_nstreams < VX_IO_STREAMS, "model bound: number of streams");
  vx_streams[vx_nstreams].file = file; return &vx_streams[vx_nstreams++];
}
static void vx_io_log(void* f, const char* s, long n) {
  int k = vx_io_file(f); vx_io_calls[k]++;
  long at = vx_io_len[k];
  for (long i = 0; i < n && at + i < VX_IO_TEXT; i++) vx_io_buf[k][at + i] = s[i];
  vx_io_len[k] = at + n;
}
void* vx_io_new(void) { __CPROVER_assert(vx_nfiles < VX_IO_FILES - 1, "model bound: number of files"); return vx_io_stream(vx_nfiles++); }
static long vx_io_mark;
void vx_io_begin(void) { vx_io_mark = vx_io_len[1]; }
long vx_io_end(void) { return vx_io_len[1] - vx_io_mark; }
long vx_io_written(void* f) { return vx_io_len[vx_io_file(f)]; }
long vx_io_text(void* f, void* buf, long n) {
  int k = vx_io_file(f); long m = vx_io_len[k] < VX_IO_TEXT ? vx_io_len[k] : VX_IO_TEXT; if (m > n) m = n;
  for (long i = 0; i < m; i++) ((char*)buf)[i] = vx_io_buf[k][i];
  return m;
}
void* fdopen(int fd, void* m) { int file = fd >= 100 ? fd - 100 : fd; return vx_io_stream(file >= 0 && file < VX_IO_FILES ? file : VX_IO_FILES - 1); }
int fclose(void* f) { return 0; }
int fileno(void* f) { return vx_io_file(f); }
int fflush(void* f) { return 0; }
int fputs(void* s, void* f) { vx_io_log(f, (const char*)s, (long)vx_strlen((const char*)s)); return 0; }
int fputc(int c, void* f) { char ch = (char)c; vx_io_log(f, &ch, 1); return c; }
int isatty(int fd) { return 0; }
int getpid(void) { return nondet_int(); }
#endif
static int vx_errno;
int* __errno_location(void) { return &vx_errno; }
int toupper(int c) { return (c >= 'a' && c <= 'z') ? c - 32 : c; }
int tolower(int c) { return (c >= 'A' && c <= 'Z') ? c + 32 : c; }
int isspace(int c) { return c == ' ' || (c >= 9 && c <= 13); }
int64_t _ZNSt6chrono3_V212system_clock3nowEv(void) { return nondet_long(); }

/* snprintf: literal text, %s, %d, %u, %ld, %lu, %c, %02x style hex (what BLOC's non-float formatting needs).
 * Floating formats (%g ...) are not modelled: the assertion makes a harness that reaches them fail loudly. */
static uint64_t vx_put_u(char* out, uint64_t k, uint64_t n, uint64_t v, unsigned base, int minw, char pad, int upper) {
  char d[24]; int nd = 0;
  for (int i = 0; i < 22; ++i) { if (i == 0 || v != 0) { unsigned x = (unsigned)(v % base); d[nd++] = (char)(x < 10 ? '0' + x : (upper ? 'A' : 'a') + x - 10); v /= base; } }
  for (int i = 0; i < 22; ++i) if (nd + i < minw) { if (k + 1 < n) out[k] = pad; ++k; }
  for (int i = 21; i >= 0; --i) if (i < nd) { if (k + 1 < n) out[k] = d[i]; ++k; }
  return k;
}
int vx_vsnprintf_long(char* out, uint64_t n, const char* f, va_list ap) {
  uint64_t k = 0;
  for (int guard = 0; guard < 64 && *f; ++guard, ++f) {
    if (f[0] != '%') { if (k + 1 < n) out[k] = *f; ++k; continue; }
    ++f;
    char pad = ' '; int minw = 0, lng = 0;
    if (*f == '0') { pad = '0'; ++f; }
    if (*f >= '1' && *f <= '9') { minw = *f - '0'; ++f; }
    if (*f == 'l') { lng = 1; ++f; if (*f == 'l') ++f; }
    if (*f == 'z') { lng = 1; ++f; }
    if (*f == 's') { const char* s = va_arg(ap, const char*); uint64_t l = vx_strlen(s); for (uint64_t i = 0; i < l; ++i) { if (k + 1 < n) out[k] = s[i]; ++k; } }
    else if (*f == 'c') { int c = va_arg(ap, int); if (k + 1 < n) out[k] = (char)c; ++k; }
    else if (*f == 'd' || *f == 'i') { int64_t v = lng ? va_arg(ap, int64_t) : (int64_t)va_arg(ap, int); uint64_t u = (uint64_t)v; if (v < 0) { if (k + 1 < n) out[k] = '-'; ++k; u = 0 - u; } k = vx_put_u(out, k, n, u, 10, minw, pad, 0); }
    else if (*f == 'u') { uint64_t v = lng ? va_arg(ap, uint64_t) : (uint64_t)va_arg(ap, unsigned); k = vx_put_u(out, k, n, v, 10, minw, pad, 0); }
    else if (*f == 'x' || *f == 'X') { uint64_t v = lng ? va_arg(ap, uint64_t) : (uint64_t)va_arg(ap, unsigned); k = vx_put_u(out, k, n, v, 16, minw, pad, *f == 'X'); }
    else if (*f == '%') { if (k + 1 < n) out[k] = '%'; ++k; }
    else { __CPROVER_assert(0, "model bound: snprintf conversion not modelled"); }
  }
  if (n) out[k < n ? k : n - 1] = 0;
  return (int)k;
}
#ifndef VX_NATIVE_SELFTEST
int snprintf(void* buf, uint64_t n, void* fmt, ...) { va_list ap; va_start(ap, fmt); int r = vx_vsnprintf_long((char*)buf, n, (const char*)fmt, ap); va_end(ap); return r; }
/* fprintf: literal characters, %% and %s / %d / %u / %c are rendered; any other conversion writes nothing (its output is not part of
 * any assertion). A caller that passes data as the format string is therefore visible: the data's % sequences are interpreted. */
int fprintf(void* f, void* fmt, ...) {
  const char* p = (const char*)fmt; char out[40]; long n = 0; va_list ap; va_start(ap, fmt);
  for (int g = 0; g < 32 && *p; ++g, ++p) {
    if (*p != '%') { if (n < 40) out[n] = *p; ++n; continue; }
    ++p;
    if (*p == 0) break;
    if (*p == '%') { if (n < 40) out[n] = '%'; ++n; }
    else if (*p == 'c') { int c = va_arg(ap, int); if (n < 40) out[n] = (char)c; ++n; }
    else if (*p == 's') { const char* a = va_arg(ap, const char*); for (int k = 0; k < 16 && a && a[k]; ++k) { if (n < 40) out[n] = a[k]; ++n; } }
    else if (*p == 'd' || *p == 'u') { unsigned v = va_arg(ap, unsigned); (void)v; if (n < 40) out[n] = '#'; ++n; }
  }
  va_end(ap);
  vx_io_log(f, out, n < 40 ? n : 40);
  return (int)n;
}
uint64_t fwrite(void* p, uint64_t s, uint64_t n, void* f) { vx_io_log(f, (const char*)p, (long)(s * n)); return n; }

#endif
/* bloc::Error::what() (inline in exception.h) when a harness cuts error-text formatting (--stub):
 * "%s" messages (user / external errors) yield their argument, every other message a fixed text.
 * Layout of bloc::Error: vptr, const char* _message, std::string _arg. */
void* _ZNK4bloc5Error4whatEv(void* self) {
  static char buf[256];
  const char* m = *(const char**)((char*)self + 8);
  struct vx_str* a = (struct vx_str*)((char*)self + 16);
  if (m == 0) buf[0] = 0;
  else if (m[0] == '%' && m[1] == 's' && m[2] == 0) { for (int i = 0; i < 16; ++i) buf[i] = ((uint64_t)i < a->len) ? a->p[i] : 0; __CPROVER_assert(a->len <= 15, "model bound: error argument longer than 15 bytes"); }
  else { buf[0] = 'E'; buf[1] = 0; }
  return buf;
}

/* error-text formatting helpers of BLOC, when an instance cuts them (--stub): they yield an empty string.
 * (Only the text of error messages depends on them; kernels about that text do not cut them.) */
void _ZNK4bloc4Type8typeNameB5cxx11Ev(void* ret, void* self) { vx_str_init(S(ret), "", 0); }
void _ZNK4bloc4Type8typeNameERKNSt7__cxx1112basic_stringIcSt11char_traitsIcESaIcEEE(void* ret, void* self, void* nick) { vx_str_init(S(ret), "", 0); }
void _ZNK4bloc5Value8toStringB5cxx11Ev(void* ret, void* self) { vx_str_init(S(ret), "", 0); }
void _ZNK4bloc5Value8typeNameB5cxx11Ev(void* ret, void* self) { vx_str_init(S(ret), "", 0); }
void _ZNK4bloc9TupleDecl4Decl9tupleNameB5cxx11Ev(void* ret, void* self) { vx_str_init(S(ret), "", 0); }
/* rendering of decimals (%.16g; decided separately by the C12 number query): when cut, a fixed token per kind */
/* a harness may choose the rendering itself (vx_set_numtext): an arbitrary text of the %.16g output grammar stands for "some decimal" */
static char vx_numtext[16]; static long vx_numtext_len = -1;
void vx_set_numtext(void* s, long n) { __CPROVER_assert(n >= 0 && n <= 15, "model bound: number text"); for (long i = 0; i < 15; i++) if (i < n) vx_numtext[i] = ((char*)s)[i]; vx_numtext_len = n; }
double vx_num_of_text(void* s) { return nondet_double(); }
void vxstub__ZN4bloc5Value15readableNumericB5cxx11ERd(void* ret, void* d) { if (vx_numtext_len >= 0) vx_str_init(S(ret), vx_numtext, (uint64_t)vx_numtext_len); else vx_str_init(S(ret), "#num", 4); }
void vxstub__ZN4bloc5Value15readableIntegerB5cxx11ERl(void* ret, void* l) { vx_str_init(S(ret), "#int", 4); }
void vxstub__ZN4bloc5Value17readableImaginaryB5cxx11ERNS_9ImaginaryE(void* ret, void* i) { vx_str_init(S(ret), "(#img)", 6); }

void _ZN4bloc3DBGEiPKcz(int level, void* fmt, ...) { }      /* bloc::DBG: debug logging, no effect on any property */
void _ZN4bloc8DBGLevelEi(int level) { }

/* ---- strto* : exact models for digit strings of up to 20 characters ---- */
static int vx_digit(char c, int base) {
  int v = (c >= '0' && c <= '9') ? c - '0' : (c >= 'a' && c <= 'z') ? c - 'a' + 10 : (c >= 'A' && c <= 'Z') ? c - 'A' + 10 : 99;
  return v < base ? v : -1;
}
/* returns magnitude, sets *neg, *ovf, *endi (index of first unparsed char; 0 when no digits) */
static uint64_t vx_scan_int(const char* s, int base, _Bool* neg, _Bool* ovf, uint64_t* endi) {
  uint64_t i = 0; *neg = 0; *ovf = 0;
  for (int g = 0; g < 8; ++g) if (isspace((unsigned char)s[i])) ++i;
  __CPROVER_assert(!isspace((unsigned char)s[i]), "model bound: more than 8 leading spaces in strto*");
  if (s[i] == '+' || s[i] == '-') { *neg = s[i] == '-'; ++i; }
  if ((base == 16 || base == 0) && s[i] == '0' && (s[i + 1] == 'x' || s[i + 1] == 'X') && vx_digit(s[i + 2], 16) >= 0) { i += 2; base = 16; }
  else if (base == 0) base = s[i] == '0' ? 8 : 10;
  uint64_t v = 0, start = i; _Bool stop = 0;
  for (int g = 0; g < 21; ++g) {
    int d = stop ? -1 : vx_digit(s[i], base);
    if (d < 0) stop = 1;
    else {
      if (v > (0xffffffffffffffffUL - (uint64_t)d) / (uint64_t)base) *ovf = 1;
      v = v * (uint64_t)base + (uint64_t)d; ++i;
    }
  }
  __CPROVER_assert(stop, "model bound: more than 20 digits in strto*");
  *endi = (i == start) ? 0 : i;
  return v;
}
long long strtoll(const char* s, char** end, int base) {
  _Bool neg, ovf; uint64_t e; uint64_t v = vx_scan_int(s, base, &neg, &ovf, &e);
  if (end) *end = (char*)s + e;
  if (ovf || (!neg && v > 0x7fffffffffffffffUL) || (neg && v > 0x8000000000000000UL)) { vx_errno = 34; return neg ? (int64_t)0x8000000000000000UL : 0x7fffffffffffffffL; }
  return neg ? (int64_t)(0 - v) : (int64_t)v;
}
long strtol(const char* s, char** end, int base) { return (long)strtoll(s, end, base); }
unsigned long long strtoull(const char* s, char** end, int base) {
  _Bool neg, ovf; uint64_t e; uint64_t v = vx_scan_int(s, base, &neg, &ovf, &e);
  if (end) *end = (char*)s + e;
  if (ovf) { vx_errno = 34; return 0xffffffffffffffffUL; }
  return neg ? 0 - v : v;
}
unsigned long strtoul(const char* s, char** end, int base) { return (unsigned long)strtoull(s, end, base); }
/* strtod: the accepted prefix is computed syntactically (decimal forms, inf/nan excluded by assertion);
 * the value is an uninterpreted function of the accepted text, constrained only in sign and zero-ness */
double __VERIFIER_nondet_double(void);
double strtod(const char* s, char** end) {
  uint64_t i = 0;
  for (int g = 0; g < 8; ++g) if (isspace((unsigned char)s[i])) ++i;
  _Bool neg = 0; if (s[i] == '+' || s[i] == '-') { neg = s[i] == '-'; ++i; }
  uint64_t nd = 0; _Bool nz = 0, stop = 0;
  for (int g = 0; g < 20; ++g) if (!stop) { if (s[i] >= '0' && s[i] <= '9') { nz |= s[i] != '0'; ++i; ++nd; } else stop = 1; }
  if (s[i] == '.') { uint64_t j = i + 1; uint64_t fd = 0; stop = 0;
    for (int g = 0; g < 20; ++g) if (!stop) { if (s[j] >= '0' && s[j] <= '9') { nz |= s[j] != '0'; ++j; ++fd; } else stop = 1; }
    if (nd + fd > 0) { i = j; nd += fd; } }
  if (nd == 0) { if (end) *end = (char*)s; return 0.0; }
  uint64_t ev = 0;                                  /* value of the exponent part (up to 4 digits) */
  if (s[i] == 'e' || s[i] == 'E') { uint64_t j = i + 1; if (s[j] == '+' || s[j] == '-') ++j; uint64_t ed = 0; stop = 0;
    for (int g = 0; g < 4; ++g) if (!stop) { if (s[j] >= '0' && s[j] <= '9') { ev = ev * 10 + (uint64_t)(s[j] - '0'); ++j; ++ed; } else stop = 1; }
    if (ed > 0) i = j; else ev = 0; }
  if (end) *end = (char*)s + i;
  double v = nondet_double();
  __CPROVER_assume(v == v);
  if (!nz) __CPROVER_assume(v == 0.0); else __CPROVER_assume(v >= 0.0);
  /* ERANGE: a nonzero number of at most 20 + 20 digits with a decimal exponent beyond 400 is out of the binary64 range in either
   * direction; below 260 it is inside; in between it depends on the digits (arbitrary here) */
  _Bool range = nondet_bool();
  if (ev > 400) range = 1; else if (ev < 260) range = 0;
  if (range && nz) vx_errno = 34;
  return neg ? -v : v;
}

/* ---- libm: values are arbitrary doubles unless stated (DESIGN.md C03) ---- */
double fmod(double x, double y) { double r = nondet_double(); if (x == x && y == y && y != 0.0 && x - x == 0.0) __CPROVER_assume(r == r); return r; }
double pow(double x, double y) {
  if (y == 0.0) return 1.0;
  if (y == 1.0) return x;
  if (y == 2.0) return x * x;
  double r = nondet_double();
  /* C11 7.12.7.4 / Annex F.10.4.4: pow(+-0, y<0) is a pole (+-infinity); |x| >= 1 with y < 0 gives a magnitude of at most 1 */
  if (x == 0.0 && y < 0.0) __CPROVER_assume(__CPROVER_isinfd(r));
  else if (y < 0.0 && (x >= 1.0 || x <= -1.0)) __CPROVER_assume(r >= -1.0 && r <= 1.0);
  return r; }
double log(double x) { return nondet_double(); }
double log10(double x) { return nondet_double(); }
double exp(double x) { return nondet_double(); }
double sin(double x) { return nondet_double(); }
double cos(double x) { return nondet_double(); }
double tan(double x) { return nondet_double(); }
double asin(double x) { return nondet_double(); }
double acos(double x) { return nondet_double(); }
double atan(double x) { return nondet_double(); }
double atan2(double y, double x) { return nondet_double(); }
double sinh(double x) { return nondet_double(); }
double cosh(double x) { return nondet_double(); }
double tanh(double x) { return nondet_double(); }
double sqrt(double x) { double r = nondet_double(); if (x >= 0.0) __CPROVER_assume(r >= 0.0); return r; }
