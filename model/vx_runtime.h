/* C++ runtime protocol shared by generated code and the model */
#ifndef VX_RUNTIME_H
#define VX_RUNTIME_H
#include <stdint.h>
#include <stddef.h>
extern _Bool __vx_active;          /* an exception is propagating */
void* __vx_cur_obj(void);
void* __vx_cur_type(void);
_Bool __vx_isa(void* thrown_ti, void* catch_ti);
int   __vx_typeid(void* ti);
void  __vx_landed(void);
void  __vx_resume(void* obj);
void* __vx_ti_base(void* ti);      /* generated from the IR typeinfo objects */
static inline double __vx_u2d(uint64_t u) { union { uint64_t u; double d; } x; x.u = u; return x.d; }
static inline uint64_t __vx_d2u(double d) { union { uint64_t u; double d; } x; x.d = d; return x.u; }
static inline float __vx_u2f(uint32_t u) { union { uint32_t u; float d; } x; x.u = u; return x.d; }
static inline uint32_t __vx_f2u(float d) { union { uint32_t u; float d; } x; x.d = d; return x.u; }
#endif
