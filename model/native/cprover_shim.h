/* native shim for the differential self-test: the generated C and the runtime model are compiled with gcc and run
 * on concrete inputs; CPROVER primitives become ordinary code */
#ifndef VX_CPROVER_SHIM_H
#define VX_CPROVER_SHIM_H
#include <stdint.h>
void vx_native_fail(const char* msg); void vx_native_assume_violated(void);
#define __CPROVER_assert(c, msg) do { if (!(c)) vx_native_fail(msg); } while (0)
#define __CPROVER_assume(c) do { if (!(c)) vx_native_assume_violated(); } while (0)
#define __CPROVER_input(...) do { } while (0)
#define __CPROVER_isnand(x) ((x) != (x))
#define __CPROVER_isinfd(x) __builtin_isinf(x)
#define __CPROVER_r_ok(p, n) ((p) != 0)      /* natively an invalid access is caught by the sanitizer of the C++ side; the generated C only needs the null test */
#define __CPROVER_w_ok(p, n) ((p) != 0)
#define __CPROVER_overflow_plus(a, b) __extension__({ __typeof__(a) _r; __builtin_add_overflow((a), (b), &_r); })
#define __CPROVER_overflow_minus(a, b) __extension__({ __typeof__(a) _r; __builtin_sub_overflow((a), (b), &_r); })
#define __CPROVER_overflow_mult(a, b) __extension__({ __typeof__(a) _r; __builtin_mul_overflow((a), (b), &_r); })
#endif
