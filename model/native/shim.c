#include <stdio.h>
#include <stdlib.h>
#include <string.h>
#include <stdint.h>
static struct { char key[24]; unsigned long long v; } tab[256]; static int ntab = -1;
static void load(void) { ntab = 0; const char* p = getenv("VX_INPUTS"); if (!p) return; FILE* f = fopen(p, "r"); if (!f) return;
  while (ntab < 256 && fscanf(f, "%23s %llu", tab[ntab].key, &tab[ntab].v) == 2) ++ntab; fclose(f); }
static unsigned long long get(const char* kind, int k) { if (ntab < 0) load(); char b[24]; snprintf(b, sizeof b, "%s%d", kind, k);
  for (int i = 0; i < ntab; ++i) { int j = 0; while (tab[i].key[j] && tab[i].key[j] == b[j]) ++j; if (tab[i].key[j] == 0 && b[j] == 0) return tab[i].v; } return 0; }
void vx_native_fail(const char* msg) { if (!(msg[0] == 'W' && msg[1] == 'I' && msg[2] == 'T' && msg[3] == 'N')) { printf("VX-ASSERT-FAILED: %s\n", msg); fflush(stdout); } }
void vx_native_assume_violated(void) { printf("VX-ASSUME-VIOLATED\n"); fflush(stdout); _Exit(3); }
uint64_t in_long(uint32_t k) { return get("long", k); }
uint32_t in_int(uint32_t k) { return (uint32_t)get("int", k); }
_Bool in_bool(uint32_t k) { return get("bool", k) != 0; }
uint8_t in_uchar(uint32_t k) { return (uint8_t)get("uchar", k); }
double in_double(uint32_t k) { unsigned long long u = get("double", k); double d; memcpy(&d, &u, 8); return d; }
int64_t nondet_long(void) { return 0; } _Bool nondet_bool(void) { return 0; } uint8_t nondet_uchar(void) { return 0; } double nondet_double(void) { return 0; } int nondet_int(void) { return 0; }
