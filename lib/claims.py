"""what MANIFEST.json claims; one entry per property (kept next to the instance tables in lib/props)."""
BMC_NOTE = ("Trusted: clang-14 IR generation, tools/ir2c (validated by ./vx selftest differential run), the C model of libstdc++/libc in model/vx_runtime.c, CBMC 6.11 + z3/minisat. "
            "Operand major types, error kinds and container sizes are instance parameters enumerated by the driver; everything else is symbolic. ")
CLAIMS = {
 "C03": dict(text="Bounded model checking of the real operator / builtin value() functions (IR of the current sources) against the manual's arithmetic for all 64-bit payloads, null and lvalue flags; no bound on the integers, doubles bit-precise.",
             note=BMC_NOTE + "pow/fmod are uninterpreted (only type, null propagation, error and absence of UB are decided for them).",
             technique="CBMC bounded model checking of clang IR translated to C, z3/SAT back ends", ref="DESIGN.md 3/C03"),
}
NA = {p: "check not built yet in this round (planned, see DESIGN.md section 3)" for p in
      ["C01", "C02", "C04", "C05", "C06", "C07", "C08", "C09", "C10", "C11", "C12", "C13", "C14", "C15", "C16", "C17", "C18", "C19"]}
