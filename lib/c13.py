"""C13: fragmentation independence of the scanner - decided on the automaton tables of the CURRENT
blocc/lex._tokenizer.c (CBMC cannot get through the flex skeleton itself, see DESIGN.md C13).

 A. extract from the generated scanner: number of states, jam base, start conditions, the rule -> (token, push, pop)
    map (parsed from the action switch), and - through a generator compiled against the file - yy_ec, yy_accept,
    the jam set and the uncompressed next[state][class] relation.
 B. validate the compact table-driven scanner natively: linked in place of yylex into the real tokenizer_* driver and
    compared with the real generated scanner on every string <= L over an alphabet covering the character classes,
    at every split point (token codes, texts, final start condition).
 C. CBMC over the compact scanner on a symbolic text of N bytes, whole vs. split at K:
      P1  K on a token boundary of the whole scan  => identical (code, start, length) sequences
      P2  K inside a lexeme                        => identical  (known finding: lexemes are split)
      P3  K on a token boundary => the start condition (inside a literal / comment) after the first fragment is the one the whole scan has at K
 D. CBMC on the real chunk driver (tokenizer_buf / tokenizer_lex) with yylex / yy_scan_string cut.
"""
import json, os, re, shutil, subprocess, time
import vxlib as V

C13 = os.path.join(V.VERIF, "c13")

def sh(cmd, **kw):
    if kw.get("cwd") and "env" not in kw:
        kw["env"] = dict(os.environ, TMPDIR=kw["cwd"])      # goto-cc / cbmc temporaries live (and die) with the work directory
    return subprocess.run(cmd, stdout=subprocess.PIPE, stderr=subprocess.STDOUT, text=True, **kw)

def extract(workdir):
    lexc = os.path.join(V.REPO, "blocc", "lex._tokenizer.c")
    src = open(lexc, errors="replace").read()
    m = re.search(r"static const flex_int16_t yy_accept\[(\d+)\]", src)
    ns = int(m.group(1))
    m = re.search(r"while \( yy_base\[yy_current_state\] != (\d+) \)", src)
    jam = int(m.group(1))
    conds = dict((n, int(v)) for n, v in re.findall(r"^#define (INITIAL|COMMENT|LITERAL) (\d+)$", src, re.M))
    toks = dict((n, int(v)) for n, v in re.findall(r"^#define (TOKEN_\w+)\s+(\d+)", open(os.path.join(V.REPO, "blocc", "tokenizer.h")).read(), re.M))
    # rule actions
    body = src[src.index("case 1:\nYY_RULE_SETUP") if "case 1:\nYY_RULE_SETUP" in src else src.index("case 1:"):]
    acts = {}
    for m in re.finditer(r"^case (\d+):\n(.*?)YY_BREAK", body, re.S | re.M):
        k = int(m.group(1)); a = m.group(2)
        push = re.search(r"yy_push_state\(\s*(\w+)", a); pop = "yy_pop_state(" in a
        ret = re.search(r"return (TOKEN_\w+);", a)
        if ret:
            tok = toks[ret.group(1)]
        elif re.search(r"return \(unsigned char\)\s*yytext\[0\]", a):
            tok = -28
        elif "ECHO" in a:
            tok = -29
        else:
            raise V.BuildError("C13: cannot interpret the action of rule %d" % k)
        acts[k] = (tok, conds[push.group(1)] if push else 0, 1 if pop else 0)
    nrules = max(acts)
    # end-of-buffer actions per start condition (every reader fragment is scanned as a buffer of its own, so these run at every
    # fragment boundary): groups of `case YY_STATE_EOF(X):` labels followed by the action text up to yyterminate()
    eofs = {}
    for m in re.finditer(r"((?:^[ \t]*case YY_STATE_EOF\((\w+)\):[ \t]*\n)+)(.*?)yyterminate\(\);", src, re.S | re.M):
        a = m.group(3)
        if re.search(r"\breturn\b|\bBEGIN\b|YY_BREAK|^case ", a, re.M):
            raise V.BuildError("C13: cannot interpret the end-of-buffer action %r" % a[:200])
        push = re.search(r"yy_push_state\(\s*(\w+)", a); pop = "yy_pop_state(" in a
        for c in re.findall(r"YY_STATE_EOF\((\w+)\)", m.group(1)):
            eofs[conds[c]] = (conds[push.group(1)] if push else 0, 1 if pop else 0)
    if sorted(eofs) != sorted(conds.values()):
        raise V.BuildError("C13: end-of-buffer actions found for %s, start conditions are %s" % (sorted(eofs), sorted(conds.values())))
    eob = int(re.search(r"#define YY_END_OF_BUFFER (\d+)", src).group(1))
    os.makedirs(workdir, exist_ok=True)
    gen = os.path.join(workdir, "gentab")
    r = sh(["gcc", "-w", "-O1", "-DVX_NSTATES=%d" % ns, "-DVX_JAMBASE=%d" % jam, "-I" + os.path.join(V.REPO, "blocc"), "-I" + V.REPO,
            os.path.join(C13, "gentab2.c"), "-o", gen])
    if r.returncode != 0:
        raise V.BuildError("C13 gentab: " + r.stdout[-2000:])
    d = json.loads(sh([gen]).stdout)
    nc = d["nc"]
    with open(os.path.join(workdir, "dfa_tables.h"), "w") as f:
        f.write("/* generated from %s */\n#define VX_NS %d\n#define VX_NC %d\n#define VX_NRULES %d\n" % (lexc, ns, nc, nrules))
        f.write("static const unsigned char vx_ec[256] = {%s};\n" % ",".join(map(str, d["ec"])))
        f.write("static const unsigned char vx_accept[%d] = {%s};\n" % (ns, ",".join(map(str, d["accept"]))))
        f.write("static const unsigned char vx_jam[%d] = {%s};\n" % (ns, ",".join(map(str, d["jam"]))))
        f.write("static const unsigned char vx_next[%d][%d] = {%s};\n" % (ns, nc, ",".join("{%s}" % ",".join(map(str, row)) for row in d["next"])))
        f.write("static const struct { int tok; int push; int pop; } act_tab[%d] = { {0,0,0}%s, {0,0,0} };\n" % (nrules + 2, "".join(",{%d,%d,%d}" % acts[k] for k in range(1, nrules + 1))))
        f.write("static const struct { int push; int pop; } eof_tab[%d] = { %s };\n" % (max(eofs) + 1, ", ".join("{%d,%d}" % eofs.get(k, (0, 0)) for k in range(max(eofs) + 1))))
    with open(os.path.join(workdir, "vx_next.h"), "w") as f:
        f.write("static const unsigned char vx_next[%d][%d] = {%s};\n" % (ns, nc, ",".join("{%s}" % ",".join(map(str, row)) for row in d["next"])))
    return dict(ns=ns, nc=nc, jam=jam, nrules=nrules, eob=eob, acts=acts, conds=conds, eofs=eofs)

def native_validation(workdir, info, L):
    """compact scanner (c13/vxlex.c over the extracted tables) == real generated yylex, inside the real driver"""
    inc = ["-I" + V.REPO, "-I" + os.path.join(V.REPO, "blocc"), "-I" + workdir]
    real = os.path.join(workdir, "d_real"); comp = os.path.join(workdir, "d_compact")
    diffc = os.path.join(workdir, "diff.c")
    open(diffc, "w").write(open(os.path.join(C13, "diff.c")).read().replace("L <= 4", "L <= %d" % L))
    r1 = sh(["gcc", "-w", "-O1"] + inc + [os.path.join(V.REPO, "blocc", "lex._tokenizer.c"), diffc, "-o", real])
    r2 = sh(["gcc", "-w", "-O1", "-DVX_FLAT", "-DVX_NSTATES=%d" % info["ns"], "-DVX_JAMBASE=%d" % info["jam"], "-DVX_MAXSKIP=64"] + inc + [os.path.join(C13, "vxlex.c"), diffc, "-o", comp])
    if r1.returncode or r2.returncode:
        raise V.BuildError("C13 native build: " + (r1.stdout + r2.stdout)[-2000:])
    o1 = subprocess.run([real], stdout=subprocess.PIPE, stderr=subprocess.PIPE, text=True, errors="replace")
    o2 = subprocess.run([comp], stdout=subprocess.PIPE, stderr=subprocess.PIPE, text=True, errors="replace")
    cases = int(re.search(r"(\d+) cases", o1.stderr).group(1)) if re.search(r"(\d+) cases", o1.stderr) else 0
    same = o1.stdout == o2.stdout and cases > 0
    firstdiff = None
    if not same:
        for a, b in zip(o1.stdout.splitlines(), o2.stdout.splitlines()):
            if a != b:
                firstdiff = (a, b); break
    return dict(cases=cases, identical=same, first_difference=firstdiff)

def cbmc_run(workdir, src, defs, tag, unwind, timeout, extra=()):
    gb = os.path.join(workdir, tag + ".gb")
    r = sh(["goto-cc", "-I" + workdir, "-I" + V.REPO, "-I" + os.path.join(V.REPO, "blocc")] + ["-D" + d for d in defs] + [src, "-o", gb], cwd=workdir)
    if r.returncode != 0:
        return dict(verdict="broken", note=r.stdout[-1500:], solver_s=0, props={}, traces={})
    log = os.path.join(workdir, tag + ".log")
    t0 = time.time()
    cmd = "ulimit -v %d; exec cbmc %s --unwind %d --unwinding-assertions --no-standard-checks --bounds-check --pointer-check --slice-formula --trace %s" % (24 * 1024 * 1024, gb, unwind, " ".join(extra))
    try:
        with open(log, "w") as lf:
            subprocess.run(["bash", "-c", cmd], stdout=lf, stderr=subprocess.STDOUT, timeout=timeout, cwd=workdir, env=dict(os.environ, TMPDIR=workdir))
    except subprocess.TimeoutExpired:
        sh(["killall", "-q", "cbmc"])
        return dict(verdict="inconclusive", note="timeout %ds" % timeout, solver_s=time.time() - t0, props={}, traces={})
    text = open(log, errors="replace").read()
    verdict, props, traces, steps, vccs = V.parse_cbmc(text)
    tr = {}
    for m in re.finditer(r"^Trace for (.+?):$(.*?)(?=^Trace for |\Z)", text, re.S | re.M):
        bytes_ = re.findall(r"^\s+t\[(\d+)l?\]=(\d+)", m.group(2), re.M)
        tr[m.group(1)] = {int(i): int(v) for i, v in bytes_}
    return dict(verdict=verdict or "inconclusive", props=props, traces=tr, steps=steps or 0, solver_s=time.time() - t0, log=log)

def replay_split(workdir, info, text_bytes, k):
    """run the REAL scanner (native build of the current lex._tokenizer.c) on the text whole and split at k"""
    src = os.path.join(workdir, "replay.c")
    open(src, "w").write(r'''
#include <stdio.h>
#include <string.h>
#include "blocc/tokenizer.h"
struct src { const char* t; int n; int pos; int split; };
static void rd(void *h, char *buf, int *len, int maxsize) { struct src *s = h; int n = 0; int lim = (s->pos < s->split) ? s->split : s->n;
  while (s->pos < lim && n < maxsize) { char c = s->t[s->pos++]; buf[n++] = c; if (c == '\n') break; } *len = n; }
static void run(const char* t, int L, int split) { struct src s = { t, L, 0, split }; TOKEN_SCANNER sc = tokenizer_init(&s, rd); tokenizer_enable_space(sc);
  for (int k = 0; k < 16; ++k) { int tk = 0; const char* tx = 0; tokenizer_lex(sc, &tk, &tx); if (tk <= 0) break; printf(" %d'", tk); for (const char* p = tx; *p; ++p) printf("%02x", (unsigned char)*p); printf("'"); }
  printf(" st=%d\n", tokenizer_state(sc)); tokenizer_free(sc); }
int main(int argc, char** argv) { char t[16]; int L = argc - 2; int k = 0; sscanf(argv[1], "%d", &k); for (int i = 0; i < L; ++i) { int v; sscanf(argv[2 + i], "%d", &v); t[i] = (char)v; } t[L] = 0; run(t, L, 0); run(t, L, k); return 0; }
''')
    exe = os.path.join(workdir, "replay")
    if not os.path.exists(exe):
        r = sh(["gcc", "-w", "-O1", "-I" + V.REPO, "-I" + os.path.join(V.REPO, "blocc"), os.path.join(V.REPO, "blocc", "lex._tokenizer.c"), src, "-o", exe])
        if r.returncode:
            return None
    o = sh([exe, str(k)] + [str(b) for b in text_bytes]).stdout.splitlines()
    return dict(whole=o[0] if o else "", split=o[1] if len(o) > 1 else "", differ=(len(o) > 1 and o[0] != o[1]))

def check(tier, findings, rundir, say):
    t0 = time.time()
    wd = os.path.join(rundir, "c13")
    res = dict(name="c13-automaton", known=[], violations=[], broken=False, samples=[], queries=0, solver_s=0.0, assertions=0, assertions_passed=0, instances=0, instances_ok=0, steps=0, replays=0, notes=[])
    try:
        info = extract(wd)
    except Exception as e:
        res["broken"] = True; res["notes"].append("extraction failed: %s" % e); say("  [C13] extraction failed: %s" % e); return res
    res["tables"] = dict(states=info["ns"], classes=info["nc"], rules=info["nrules"], jam_base=info["jam"])
    L = 3 if tier == "quick" else 4
    nv = native_validation(wd, info, L)
    res["native_validation"] = nv
    say("  [C13] tables: %d states, %d classes, %d rules; compact scanner vs real yylex on %d native cases: %s" % (info["ns"], info["nc"], info["nrules"], nv["cases"], "identical" if nv["identical"] else "DIFFERENT %s" % (nv["first_difference"],)))
    if not nv["identical"]:
        res["broken"] = True; res["notes"].append("compact scanner differs from the real scanner: the automaton encoding cannot be trusted"); return res
    kf = {f["id"]: f for f in findings if f.get("status") == "known"}
    Ns = [3] if tier == "quick" else [3, 4, 5]
    src = os.path.join(C13, "p13.c")
    import concurrent.futures as cf
    jobs = []
    with cf.ThreadPoolExecutor(max_workers=8) as ex:
        for N in Ns:
            for K in range(1, N):
                # P1 main: known region (chunk starting with blanks then '#') excluded when listed
                jobs.append((N, K, "P1", ex.submit(cbmc_run, wd, src, ["N=%d" % N, "K=%d" % K, "P1=1"] + (["EXCL_BOL=1"] if "KF_SCANNER_BOL_AT_FRAGMENT_START" in kf else []), "p1_%d_%d" % (N, K), N + 2, 900)))
                if "KF_SCANNER_BOL_AT_FRAGMENT_START" in kf:
                    jobs.append((N, K, "P1kf", ex.submit(cbmc_run, wd, src, ["N=%d" % N, "K=%d" % K, "P1=1", "ONLY_BOL=1"], "p1kf_%d_%d" % (N, K), N + 2, 900)))
                jobs.append((N, K, "P2", ex.submit(cbmc_run, wd, src, ["N=%d" % N, "K=%d" % K], "p2_%d_%d" % (N, K), N + 2, 900)))
                jobs.append((N, K, "P3", ex.submit(cbmc_run, wd, src, ["N=%d" % N, "K=%d" % K, "P3=1"], "p3_%d_%d" % (N, K), N + 2, 900)))
        done = [(N, K, which, f.result()) for (N, K, which, f) in jobs]
    p2_known = "KF_SCANNER_LEXEME_SPLIT" in kf
    for N, K, which, r in done:
        res["instances"] += 1; res["queries"] += 1; res["solver_s"] += r.get("solver_s", 0); res["steps"] += r.get("steps", 0) or 0
        if r["verdict"] in ("broken", "inconclusive"):
            res["broken"] = True; res["notes"].append("%s N=%d K=%d: %s %s" % (which, N, K, r["verdict"], r.get("note", ""))); continue
        res["assertions"] += len(r["props"]); res["assertions_passed"] += sum(1 for d, x in r["props"].values() if x == "SUCCESS")
        fails = [(n, d) for n, (d, x) in r["props"].items() if x == "FAILURE"]
        wit = [n for n, d in fails if d.startswith("WITNESS")]
        real = [(n, d) for n, d in fails if not d.startswith("WITNESS")]
        if not wit and which != "P1kf":
            res["broken"] = True; res["notes"].append("%s N=%d K=%d: witness unreachable" % (which, N, K)); continue
        res["instances_ok"] += 1
        sample = None
        for n, d in real:
            tb = r["traces"].get(n, {})
            text = [tb.get(i, 32) for i in range(N)]
            rp = replay_split(wd, info, text, K); res["replays"] += 1
            sample = dict(N=N, K=K, assertion=d, text_bytes=text, text="".join(chr(b) if 32 <= b < 127 else "\\x%02x" % b for b in text), real_scanner=rp)
            listed = (which == "P2" and p2_known) or (which == "P1kf")
            if listed and rp and rp["differ"]:
                res["known"].append(("KF_SCANNER_LEXEME_SPLIT" if which == "P2" else "KF_SCANNER_BOL_AT_FRAGMENT_START", kf["KF_SCANNER_LEXEME_SPLIT" if which == "P2" else "KF_SCANNER_BOL_AT_FRAGMENT_START"]["what"], "c13 %s N=%d K=%d" % (which, N, K)))
            elif rp and rp["differ"]:
                os.makedirs(os.path.join(V.OUT, "replay", "C13"), exist_ok=True)
                path = os.path.join(V.OUT, "replay", "C13", "c13-%s-%d-%d.json" % (which, N, K))
                json.dump(sample, open(path, "w"), indent=1)
                res["violations"].append(("c13.%s.N%d.K%d" % (which, N, K), path, [d]))
            else:
                res["broken"] = True; res["notes"].append("%s N=%d K=%d: counterexample %s does not reproduce on the real scanner (model mismatch)" % (which, N, K, text))
        if sample and len(res["samples"]) < 6:
            res["samples"].append(sample)
        elif not real and len(res["samples"]) < 3:
            res["samples"].append(dict(N=N, K=K, query=which, verdict="holds for all %d-byte texts" % N))
    # D: chunk driver on the real C code
    gb = os.path.join(wd, "k2a.gb")
    r = sh(["goto-cc", "-I" + V.REPO, "-I" + os.path.join(V.REPO, "blocc"), os.path.join(C13, "k2a.c"), "-o", gb], cwd=wd)
    if r.returncode == 0:
        cut = ["_tokenizer_scan_string", "_tokenizer_delete_buffer"]
        r = sh(["goto-instrument"] + sum([["--remove-function-body", c] for c in cut], []) + [gb, gb + ".1"], cwd=wd)
        r = sh(["goto-cc", gb + ".1", os.path.join(C13, "k2a_stubs.c"), "-o", gb + ".2"], cwd=wd)
        if r.returncode != 0:
            res["broken"] = True; res["notes"].append("k2a link: " + r.stdout[-600:])
        r2 = cbmc_run_gb(wd, gb + ".2", "k2a", 9, 600)
        res["instances"] += 1; res["queries"] += 1; res["solver_s"] += r2.get("solver_s", 0)
        k2fails = [d for d, x in r2["props"].values() if x == "FAILURE" and not d.startswith("WITNESS")]
        if r2["verdict"] in ("success", "failed") and not k2fails:
            r2["verdict"] = "success"
        if r2["verdict"] == "success":
            res["instances_ok"] += 1; res["assertions"] += len(r2["props"]); res["assertions_passed"] += len(r2["props"])
            res["samples"].append(dict(kernel="tokenizer_buf/tokenizer_lex chunk driver (real C, yylex and yy_scan_string cut)", verdict="all %d assertions hold" % len(r2["props"])))
        elif r2["verdict"] == "failed":
            bad = [d for d, x in r2["props"].values() if x == "FAILURE"]
            os.makedirs(os.path.join(V.OUT, "replay", "C13"), exist_ok=True)
            path = os.path.join(V.OUT, "replay", "C13", "c13-k2a.json"); json.dump(dict(failed=bad, log=r2.get("log")), open(path, "w"), indent=1)
            res["violations"].append(("c13.k2a", path, bad))
        else:
            res["broken"] = True; res["notes"].append("k2a: %s %s" % (r2["verdict"], r2.get("note", "")))
    else:
        res["broken"] = True; res["notes"].append("k2a build: " + r.stdout[-800:])
    say("  [C13] automaton queries: %d, ok %d, known %d, violations %d, %.0fs %s" % (res["instances"], res["instances_ok"], len(res["known"]), len(res["violations"]), time.time() - t0, "; ".join(res["notes"])[:400]))
    return res

def cbmc_run_gb(workdir, gb, tag, unwind, timeout, extra=()):
    log = os.path.join(workdir, tag + ".log"); t0 = time.time()
    cmd = "ulimit -v %d; exec cbmc %s --unwind %d --unwinding-assertions --no-standard-checks --bounds-check --pointer-check --slice-formula --no-malloc-may-fail %s" % (24 * 1024 * 1024, gb, unwind, " ".join(extra))
    try:
        with open(log, "w") as lf:
            subprocess.run(["bash", "-c", cmd], stdout=lf, stderr=subprocess.STDOUT, timeout=timeout, cwd=workdir, env=dict(os.environ, TMPDIR=workdir))
    except subprocess.TimeoutExpired:
        return dict(verdict="inconclusive", note="timeout", solver_s=time.time() - t0, props={})
    text = open(log, errors="replace").read()
    verdict, props, traces, steps, vccs = V.parse_cbmc(text)
    return dict(verdict=verdict or "inconclusive", props=props, solver_s=time.time() - t0, log=log, note=text[-300:] if not verdict else "")
