"""vx: solver-based checking of janbar/BLOC through clang IR -> C -> CBMC.

Pipeline per instance (see DESIGN.md section 2):
  /repo TU --clang++-14 -O0--> .ll --opt sroa,mem2reg--> .bc   (cached by hash of the preprocessed text)
  harness.cpp (+ -D instance parameters) --same--> .bc
  llvm-link --> ir2c --entry E --ub-checks --> gen.c --goto-cc (+ model/vx_runtime.c)--> .gb
  cbmc (portfolio of back ends) --> per-assertion verdicts (+ traces)
"""
import hashlib, json, os, re, shutil, subprocess, sys, time, threading, signal, fnmatch
from concurrent.futures import ThreadPoolExecutor, as_completed

VERIF = os.path.dirname(os.path.dirname(os.path.abspath(__file__)))
REPO = os.environ.get("VX_REPO", "/repo")
OUT = os.path.join(VERIF, "out")
CACHE = os.path.join(OUT, "cache")
LLVM = "/usr/lib/llvm-14/bin"
CLANGXX = "clang++-14"
IR2C = os.path.join(VERIF, "tools", "ir2c")
MODEL_C = os.path.join(VERIF, "model", "vx_runtime.c")
MODEL_DIR = os.path.join(VERIF, "model")
HARNESS_DIR = os.path.join(VERIF, "harness")
NCPU = int(os.environ.get("VX_JOBS", str(os.cpu_count() or 4)))

def sh(cmd, **kw):
    return subprocess.run(cmd, stdout=subprocess.PIPE, stderr=subprocess.STDOUT, text=True, **kw)

def sha(*parts):
    h = hashlib.sha256()
    for p in parts:
        h.update(p if isinstance(p, bytes) else str(p).encode())
        h.update(b"\0")
    return h.hexdigest()[:24]

_version_cache = {}
def lib_version():
    if "v" not in _version_cache:
        txt = open(os.path.join(REPO, "CMakeLists.txt")).read()
        def g(name, dflt):
            m = re.search(r"set\s*\(\s*%s\s+(\d+)" % name, txt)
            return m.group(1) if m else dflt
        ma, mi, pa = g("BLOC_VERSION_MAJOR", "2"), g("BLOC_VERSION_MINOR", "9"), g("BLOC_VERSION_PATCH", "3")
        _version_cache["v"] = ("%s.%s.%s" % (ma, mi, pa), "%s.%s" % (ma, mi))
    return _version_cache["v"]

def cxxflags(extra_defs=()):
    v, sv = lib_version()
    f = ["-std=gnu++11", "-O0", "-Xclang", "-disable-O0-optnone", "-ffp-contract=off", "-DNDEBUG",
         "-DLIBVERSION=\"%s\"" % v, "-DLIBSOVERSION=\"%s\"" % sv, "-DLIB_DLL_EXPORTS", "-DBLOC_VERIF",
         "-I" + REPO, "-I" + os.path.join(REPO, "blocc"), "-I" + HARNESS_DIR, "-I" + MODEL_DIR, "-w",
         "-Wno-builtin-macro-redefined", "-D__DATE__=\"Jan  1 2000\"", "-D__TIME__=\"00:00:00\""]   # cache key must not depend on the clock
    for d in extra_defs:
        f.append("-D" + d)
    return f

class BuildError(Exception):
    pass

def compile_bc(src, defs=(), lang_c=False, extra_inc=()):
    """source file -> optimised (sroa, mem2reg) bitcode, cached by preprocessed content."""
    os.makedirs(CACHE, exist_ok=True)
    flags = cxxflags(defs)
    for i in extra_inc:
        flags.append("-I" + i)
    if lang_c:
        flags = [x for x in flags if not x.startswith("-std=")]
        cc = "clang-14"
    else:
        cc = CLANGXX
    pre = subprocess.run([cc] + flags + ["-E", "-P", src], stdout=subprocess.PIPE, stderr=subprocess.PIPE)
    if pre.returncode != 0:
        raise BuildError("preprocess failed: %s\n%s" % (src, pre.stderr.decode()[-3000:]))
    key = sha(pre.stdout, " ".join(flags), "v3")
    bc = os.path.join(CACHE, "%s-%s.bc" % (os.path.basename(src).replace(".", "_"), key))
    with _bc_guard:
        lk = _bc_locks.setdefault(bc, threading.Lock())
    with lk:
        return _compile_bc_locked(cc, flags, src, bc)

_bc_guard = threading.Lock()
_bc_locks = {}
def _compile_bc_locked(cc, flags, src, bc):
    if os.path.exists(bc):
        return bc
    ll = bc[:-3] + ".%d.ll" % os.getpid()
    r = sh([cc] + flags + ["-S", "-emit-llvm", src, "-o", ll])
    if r.returncode != 0:
        raise BuildError("clang failed: %s\n%s" % (src, r.stdout[-3000:]))
    tmp = bc + ".tmp%d" % os.getpid()
    r = sh([LLVM + "/opt", "-passes=sroa,mem2reg", ll, "-o", tmp])
    if r.returncode != 0:
        raise BuildError("opt failed: %s\n%s" % (src, r.stdout[-3000:]))
    os.replace(tmp, bc)
    os.unlink(ll)
    return bc

_model_lock = threading.Lock()
def model_list():
    with _model_lock:
        return _model_list()

def _model_list():
    """names defined by the runtime model (functions and data)."""
    os.makedirs(CACHE, exist_ok=True)
    srcs = [MODEL_C] + [os.path.join(MODEL_DIR, f) for f in sorted(os.listdir(MODEL_DIR)) if f.endswith(".c") and f != "vx_runtime.c"]
    key = sha(*[open(s, "rb").read() for s in srcs])
    lst = os.path.join(CACHE, "model-%s.list" % key)
    if not os.path.exists(lst):
        names = set()
        for s in srcs:
            o = os.path.join(CACHE, "model-%s-%s.o" % (key, os.path.basename(s)))
            r = sh(["gcc", "-c", "-w", "-fno-builtin", "-Wno-implicit-function-declaration", "-I" + MODEL_DIR, s, "-o", o])
            if r.returncode != 0:
                raise BuildError("model does not compile: " + r.stdout[-3000:])
            for line in sh(["nm", "--defined-only", o]).stdout.splitlines():
                p = line.split()
                if len(p) == 3 and p[1] in "TDBRCW":
                    names.add(p[2])
            os.unlink(o)
        with open(lst, "w") as f:
            f.write("\n".join(sorted(names)) + "\n")
    return lst, srcs

# ---------------------------------------------------------------- known findings
def load_known():
    p = os.path.join(VERIF, "known_findings.json")
    d = json.load(open(p))
    return d["findings"]

def kf_header(findings):
    """harness/kf_ids.h is generated from known_findings.json (ids in file order)."""
    lines = ["/* generated from known_findings.json - do not edit */", "#pragma once"]
    for i, f in enumerate(findings):
        lines.append("#define %s %d" % (f["id"], i))
    lines.append("#define KF_COUNT %d" % max(1, len(findings)))
    txt = "\n".join(lines) + "\n"
    p = os.path.join(OUT, "gen", "kf_ids.h")
    os.makedirs(os.path.dirname(p), exist_ok=True)
    if not os.path.exists(p) or open(p).read() != txt:
        with open(p + ".tmp%d" % os.getpid(), "w") as f:
            f.write(txt)
        os.replace(p + ".tmp%d" % os.getpid(), p)
    return os.path.dirname(p)

# ---------------------------------------------------------------- instances
class Inst:
    """one harness instance = one goto program = one family of solver queries."""
    def __init__(self, id, props, harness, entry, tus=(), defs=(), stubs=(), unwind=3, unwindset=(),
                 backends=("z3", "sat"), timeout=120, tier="quick", objbits=12, mem_gb=16,
                 bounds="", inputs="", c_sources=(), nounwind_assert=False, extra_cbmc=(), ub=True, desc="", model_unwind=24, short_strings=True, truncate_long=False, quick_also=None, native_extra=(), noops=()):
        self.native_extra = list(native_extra)      # further /repo sources the native (replay) build of the harness file needs
        # quick tier of property P = quick instances whose primary property (props[0]) is P, or that list P in quick_also;
        # the thorough tier of P runs every instance that carries P
        self.quick_also = list(quick_also) if quick_also is not None else None
        self.truncate_long = truncate_long
        self.model_unwind = model_unwind
        self.rest_backends = ["sat"]
        self.long_unwind = 100
        self.split_rest = True
        self.guard_kernel = True
        self.short_strings = short_strings
        self.id = id; self.props = list(props); self.harness = harness; self.entry = entry
        self.tus = list(tus); self.defs = list(defs); self.stubs = list(stubs)
        self.unwind = unwind; self.unwindset = list(unwindset); self.backends = list(backends)
        self.timeout = min(timeout, int(os.environ.get('VX_TIMEOUT_CAP', '0') or 0) or timeout); self.tier = tier; self.objbits = objbits; self.mem_gb = mem_gb
        self.bounds = bounds; self.inputs = inputs; self.c_sources = list(c_sources); self.noops = list(noops)
        self.nounwind_assert = nounwind_assert; self.extra_cbmc = list(extra_cbmc); self.ub = ub; self.desc = desc

CORE_TUS = ["blocc/value.cpp", "blocc/context.cpp", "blocc/collection.cpp", "blocc/tuple.cpp", "blocc/tuple_decl.cpp",
            "blocc/complex.cpp", "blocc/symbol.cpp", "blocc/exception_runtime.cpp", "blocc/exception_parse.cpp",
            "blocc/functor_manager.cpp", "blocc/statement.cpp", "blocc/executable.cpp", "blocc/plugin_manager.cpp"]

# cuts for kernels whose values are scalars: container / object payload code and error-text formatting.
# A cut function has the body assert(0,"unmodelled external"), so a passing run proves it unreachable.
FMT_STUBS = ["_ZNK4bloc5Error4whatEv", "_ZNK4bloc4Type8typeNameB5cxx11Ev", "_ZNK4bloc4Type8typeNameERKNSt7__cxx1112basic_stringIcSt11char_traitsIcESaIcEEE",
             "_ZNK4bloc5Value8toStringB5cxx11Ev", "_ZNK4bloc5Value8typeNameB5cxx11Ev", "_ZNK4bloc9TupleDecl4Decl9tupleNameB5cxx11Ev"]
CTX_STUBS = ["_ZN4bloc7ContextD0Ev", "_ZN4bloc7ContextD2Ev", "_ZN4bloc7FunctorD2Ev"]
CONTAINER_STUBS = ["_ZN4bloc10CollectionC2ERKS0_", "_ZN4bloc10CollectionD0Ev", "_ZN4bloc10CollectionD2Ev",
                   "_ZN4bloc5TupleC2EOSt6vectorINS_5ValueESaIS2_EE", "_ZN4bloc5TupleC2ERKS0_", "_ZN4bloc5TupleD0Ev", "_ZN4bloc5TupleD2Ev",
                   "_ZN4bloc7ComplexC2EOS0_", "_ZN4bloc7ComplexC2ERKS0_", "_ZN4bloc7ComplexC2EtPv", "_ZN4bloc7ComplexD2Ev"]
SCALAR_STUBS = FMT_STUBS + CTX_STUBS + CONTAINER_STUBS
# loops over the item types of a tuple declaration (vector<Type>): kernels that only handle scalar symbols have
# empty declarations, so one unwinding (checked by the unwinding assertion) is enough
EMPTY_DECL_UNWIND = ["_ZNSt12_Destroy_auxILb0EE9__destroyIPN4bloc4TypeEEEvT_S5_.0:1",
                     "_ZSt16__do_uninit_copyIN9__gnu_cxx17__normal_iteratorIPKN4bloc4TypeESt6vectorIS3_SaIS3_EEEEPS3_ET0_T_SC_SB_.0:1",
                     "_ZSt16__do_uninit_copyIPN4bloc4TypeES2_ET0_T_S4_S3_.0:1"]

TU_DEFS = {"apps/main.cpp": ("main=bloc_app_main",)}      # the command's main() is a kernel like any other function

def build_instance(inst, kfdir, workdir):
    """returns path of the goto binary (without main; main is linked per run mode)."""
    os.makedirs(workdir, exist_ok=True)
    bcs = []
    hsrc = os.path.join(HARNESS_DIR, inst.harness)
    bcs.append(compile_bc(hsrc, inst.defs, extra_inc=[kfdir]))
    for t in inst.tus:
        p = os.path.join(REPO, t)
        bcs.append(compile_bc(p, TU_DEFS.get(t, ()), lang_c=t.endswith(".c")))
    linked = os.path.join(workdir, "linked.bc")
    r = sh([LLVM + "/llvm-link"] + bcs + ["-o", linked])
    if r.returncode != 0:
        raise BuildError("llvm-link: " + r.stdout[-3000:])
    mlist, msrcs = model_list()
    gen = os.path.join(workdir, "gen.c")
    cmd = [IR2C, linked, "--entry", inst.entry, "--out", gen, "--model-list", mlist]
    if inst.ub:
        cmd.append("--ub-checks")
    if inst.guard_kernel:
        gl = os.path.join(workdir, "guard.list")
        with open(gl, "w") as f:
            f.write("\n".join(sorted(kernel_functions(inst))) + "\n")
        cmd += ["--guard-list", gl]
    for s in inst.stubs:
        cmd += ["--stub", s]
    for s in inst.noops:
        cmd += ["--noop", s]
    r = sh(cmd)
    if r.returncode != 0:
        raise BuildError("ir2c: " + r.stdout[-3000:])
    os.unlink(linked)
    objs = []
    csrc = [gen] + msrcs + [os.path.join(VERIF, c) for c in inst.c_sources]
    for c in csrc:
        o = os.path.join(workdir, os.path.basename(c)[:-2] + ".go")
        r = sh(["goto-cc", "-I" + MODEL_DIR, "-I" + kfdir] + (["-DVX_SHORT_ONLY"] if inst.short_strings else []) + (["-DVX_TRUNC", "-DVX_SHORT_ONLY"] if inst.truncate_long else []) + ["-c", c, "-o", o], cwd=workdir, env=dict(os.environ, TMPDIR=workdir))
        if r.returncode != 0 or not os.path.exists(o):
            raise BuildError("goto-cc %s: %s" % (c, r.stdout[-4000:]))
        objs.append(o)
    return objs, gen

def link_main(objs, inst, modes, tag, workdir):
    mc = os.path.join(workdir, "main-%s.c" % tag)
    write_main(mc, inst.entry, modes)
    gb = os.path.join(workdir, "prog-%s.gb" % tag)
    r = sh(["goto-cc", mc] + objs + ["-o", gb], cwd=workdir, env=dict(os.environ, TMPDIR=workdir))
    if r.returncode != 0 or not os.path.exists(gb):
        raise BuildError("goto-cc link: " + r.stdout[-4000:])
    return gb

_model_loops = {}
def model_loops(objs):
    """loop ids of the runtime model objects (every model loop gets VX_MODEL_UNWIND unless the instance overrides it)."""
    res = []
    for o in objs:
        if os.path.basename(o) == "gen.go":
            continue
        key = sha(open(o, "rb").read())
        if key not in _model_loops:
            r = sh(["cbmc", "--show-loops", o])
            _model_loops[key] = re.findall(r"^Loop ([^\s:]+):$", r.stdout, re.M)
        res += _model_loops[key]
    return res

def write_main(path, entry, modes):
    with open(path, "w") as f:
        f.write("extern int vx_kf_mode[];\nvoid __vx_global_ctors(void); void %s(void);\n" % entry)
        f.write("int main(void){\n")
        for i, m in enumerate(modes):
            if m:
                f.write("  vx_kf_mode[%d] = %d;\n" % (i, m))
        f.write("  __vx_global_ctors(); %s(); return 0; }\n" % entry)

RES_RE = re.compile(r"^\[(?P<name>[^\]]+)\] (?:line (?P<line>\d+) )?(?P<desc>.*): (?P<res>SUCCESS|FAILURE|UNKNOWN|ERROR)$")

def parse_cbmc(text):
    props = {}
    verdict = None
    for line in text.splitlines():
        m = RES_RE.match(line)
        if m:
            props[m.group("name")] = (m.group("desc"), m.group("res"))
        elif line.startswith("VERIFICATION SUCCESSFUL"):
            verdict = "success"
        elif line.startswith("VERIFICATION FAILED"):
            verdict = "failed"
    traces = {}
    cur = None
    for line in text.splitlines():
        m = re.match(r"^Trace for (.+):$", line)
        if m:
            cur = m.group(1); traces[cur] = {}
            continue
        if cur:
            m = re.match(r"^\s+INPUT in_(long|bool|uchar|double|int): (\d+) \([01 ]+\); (.+?) \(([01 ]+)\)$", line)
            if m:
                kind, idx, val, bits = m.group(1), int(m.group(2)), m.group(3), m.group(4).replace(" ", "")
                traces[cur]["%s%d" % (kind, idx)] = {"text": val, "bits": bits}
    steps = None
    m = re.search(r"size of program expression: (\d+) steps", text)
    if m:
        steps = int(m.group(1))
    m = re.search(r"Generated (\d+) VCC\(s\), (\d+) remaining", text)
    vccs = (int(m.group(1)), int(m.group(2))) if m else None
    return verdict, props, traces, steps, vccs

class Running:
    procs = set()
    lock = threading.Lock()

def _kill_all():
    with Running.lock:
        for p in list(Running.procs):
            try:
                os.killpg(p.pid, signal.SIGKILL)
            except Exception:
                pass

def cbmc_flags(inst, loops):
    flags = ["--unwind", str(inst.unwind), "--object-bits", str(inst.objbits), "--no-malloc-may-fail",
             "--drop-unused-functions", "--no-standard-checks", "--pointer-check", "--bounds-check",
             "--slice-formula"]
    if not inst.nounwind_assert:
        flags.append("--unwinding-assertions")
    uws = {}
    for l in loops:
        uws[l] = str(inst.long_unwind if "_long" in l else inst.model_unwind)
    for u in inst.unwindset:
        k, v = u.rsplit(":", 1); uws[k] = v
    if uws:
        flags += ["--unwindset", ",".join("%s:%s" % kv for kv in sorted(uws.items()))]
    return flags + inst.extra_cbmc

BEFLAGS = {"z3": ["--z3"], "sat": [], "cvc5": ["--cvc5"], "cadical": ["--sat-solver", "cadical"],
           "kissat": ["--external-sat-solver", "kissat"], "bitwuzla": ["--bitwuzla"]}

def list_props(gb, flags):
    r = subprocess.run(["cbmc", gb, "--show-properties", "--json-ui"] + flags, stdout=subprocess.PIPE, stderr=subprocess.DEVNULL, text=True)
    try:
        for o in json.loads(r.stdout):
            if "properties" in o:
                return [(p["name"], p["description"]) for p in o["properties"]]
    except Exception:
        pass
    return None

_kfn_cache = {}
def kernel_functions(inst):
    """functions defined by the kernel-specific TUs of an instance (those not in CORE_TUS): their pointer / bounds checks get a
    solver query of their own, so that a defect inside the kernel is decided even if the code after it explodes"""
    names = set()
    for t in inst.tus:
        if t in CORE_TUS:
            continue
        bc = compile_bc(os.path.join(REPO, t), TU_DEFS.get(t, ()), lang_c=t.endswith(".c"))
        if bc not in _kfn_cache:
            r = sh([LLVM + "/llvm-nm", "--defined-only", bc])
            _kfn_cache[bc] = set(l.split()[-1] for l in r.stdout.splitlines() if len(l.split()) >= 3 and l.split()[-2] in "TtWw")
        names |= _kfn_cache[bc]
    return names

def group_of(name, desc):
    """assertions are decided in three groups (separate solver queries): labelled property assertions,
    translator UB assertions, and the generic rest (pointer / bounds checks, harness-error and unwinding assertions).
    Measured: one joint query over all of them does not terminate where the three separate ones take seconds."""
    if desc.startswith("UB:"):
        return "ub"
    if "[solo]" in desc:
        return "solo:" + name      # arithmetic-heavy value assertions get a query of their own
    if re.match(r"^(C\d\d(/C\d\d)*[:.]|WITNESS|KF:)", desc):
        return "prop"
    return "rest"

def run_cbmc(gb, inst, tag, workdir, loops=()):
    """returns dict(verdict, props{name:(desc,res)}, traces, backend, solver_s, ...).
    One cbmc process per (assertion group, back end); per group the first conclusive back end wins."""
    flags = cbmc_flags(inst, loops)
    t0 = time.time()
    plist = list_props(gb, flags)
    if plist is None:
        return dict(verdict="inconclusive", props={}, traces={}, backend=None, solver_s=0, rss_kb=0, notes=["cbmc --show-properties failed"], steps=None, vccs=None, log=None)
    groups = {}
    kfn = kernel_functions(inst) if inst.split_rest else set()
    for n, d in plist:
        g = group_of(n, d)
        if g == "rest" and kfn and n.rsplit(".", 2)[0] in kfn:
            g = "restk"
        groups.setdefault(g, []).append(n)
    be_for = {g: (inst.rest_backends if g in ("rest", "restk") else inst.backends) for g in groups}
    procs = []
    for g, names in groups.items():
        for be in be_for[g]:
            gt = re.sub(r"[^A-Za-z0-9]+", "_", g)[-40:]
            log = os.path.join(workdir, "cbmc-%s-%s-%s.log" % (tag, gt, be))
            args = " ".join("--property '%s'" % n for n in names)
            sc = os.path.join(workdir, "run-%s-%s-%s.sh" % (tag, gt, be))
            with open(sc, "w") as f:
                # TMPDIR: cbmc --z3 writes its SMT problem (hundreds of MB) to a temporary file and a killed portfolio loser never
                # removes it; inside the work directory it goes away with the run directory
                f.write("ulimit -v %d\nexport TMPDIR='%s'\nexec /usr/bin/time -f 'VXTIME %%e s %%M KB' cbmc %s %s --trace --verbosity 8 %s %s\n" % (
                    inst.mem_gb * 1024 * 1024, workdir, gb, " ".join(flags), " ".join(BEFLAGS[be]), args))
            lf = open(log, "w")
            p = subprocess.Popen(["bash", sc], stdout=lf, stderr=subprocess.STDOUT, preexec_fn=os.setsid)
            with Running.lock:
                Running.procs.add(p)
            procs.append(dict(g=g, be=be, p=p, log=log, lf=lf, done=False))
    results = {}
    notes = []
    deadline = t0 + inst.timeout
    def kill(pr):
        try:
            os.killpg(pr["p"].pid, signal.SIGKILL)
        except Exception:
            pass
        pr["p"].wait(); pr["lf"].close(); pr["done"] = True
        with Running.lock:
            Running.procs.discard(pr["p"])
    while time.time() < deadline and len(results) < len(groups) and any(not pr["done"] for pr in procs):
        for pr in procs:
            if pr["done"] or pr["p"].poll() is None:
                continue
            pr["lf"].close(); pr["done"] = True
            with Running.lock:
                Running.procs.discard(pr["p"])
            if pr["g"] in results:
                continue
            text = open(pr["log"], errors="replace").read()
            verdict, props, traces, steps, vccs = parse_cbmc(text)
            if verdict is None or "(error" in text or "SMT2 solver returned error" in text:
                notes.append("%s/%s: inconclusive (rc=%s)" % (pr["g"], pr["be"], pr["p"].returncode))
                continue
            m = re.search(r"VXTIME ([\d.]+) s (\d+) KB", text)
            results[pr["g"]] = dict(verdict=verdict, props=props, traces=traces, backend=pr["be"], steps=steps, vccs=vccs,
                                    solver_s=float(m.group(1)) if m else time.time() - t0, rss_kb=int(m.group(2)) if m else 0, log=pr["log"])
            for q in procs:
                if q["g"] == pr["g"] and not q["done"]:
                    kill(q)
        time.sleep(0.1)
    for pr in procs:
        if not pr["done"]:
            kill(pr)
    if len(results) < len(groups):
        missing = [g for g in groups if g not in results]
        return dict(verdict="inconclusive", props={}, traces={}, backend=None, solver_s=time.time() - t0, rss_kb=0,
                    notes=notes + ["no verdict for group(s) %s within %ds" % (",".join(missing), inst.timeout)], steps=None, vccs=None, log=None)
    props = {}; traces = {}; logs = []
    for g, r in results.items():
        props.update(r["props"]); traces.update(r["traces"]); logs.append(r["log"])
    return dict(verdict="failed" if any(r["verdict"] == "failed" for r in results.values()) else "success",
                props=props, traces=traces, backend="+".join("%s:%s" % (g, r["backend"]) for g, r in sorted(results.items())),
                steps=max((r["steps"] or 0) for r in results.values()), vccs=None,
                solver_s=sum(r["solver_s"] for r in results.values()), rss_kb=max(r["rss_kb"] for r in results.values()),
                log=";".join(logs), notes=notes, n_queries=len(results))

HARNESS_ERR = ("unmodelled external", "indirect call: target outside candidate set", "model bound", "unwinding assertion", "recursion unwinding")

def classify(desc):
    """assertion description -> (kind, property or None)."""
    for h in HARNESS_ERR:
        if h in desc:
            return "harness", None
    if desc.startswith("WITNESS"):
        return "witness", None
    if desc.startswith("C01: invalid memory"):
        return "safety", "C01"          # translator access guards: confirmed natively by a crash / sanitizer report
    m = re.match(r"^(C\d\d(?:/C\d\d)*)[:.]", desc)
    if m:
        return "prop", m.group(1)      # one label or several ("C07/C15: ...")
    if desc.startswith("KF:"):
        return "prop", None
    return "safety", "C01"   # UB:, pointer and bounds checks, unreachable, foreign exception
