"""C12-K2 / C10: does the number rendering used by unparse / str() (Value::readableNumeric) identify a double?
The precision P is read from the format string in the CURRENT blocc/value.cpp ("%.<P>g"). Direct SMT query (linear
integer arithmetic, z3): in the binade [0.25, 0.5) doubles are m * 2^-54 with 2^52 <= m < 2^53 and P-digit decimals
are k * 10^-P; two ADJACENT doubles m, m+1 both round to the same decimal k iff
    |m * 10^P - k * 2^54| <= 2^53   and   |(m+1) * 10^P - k * 2^54| <= 2^53 .
sat  => the rendering cannot tell them apart, so parse(print(d)) != d for one of them (witness replayed with the libc)
unsat => P digits suffice in that binade (P = 17 is unsat)."""
import os, re, subprocess, time, json
import vxlib as V

def query(P):
    smt = """(set-logic QF_LIA)
(declare-const m Int) (declare-const k Int)
(assert (and (>= m {lo}) (< m {hi})))
(define-fun absd ((x Int)) Int (ite (>= x 0) x (- x)))
(assert (<= (absd (- (* m {p10}) (* k {two54}))) {two53}))
(assert (<= (absd (- (* (+ m 1) {p10}) (* k {two54}))) {two53}))
(check-sat) (get-value (m k))
""".format(lo=2**52, hi=2**53 - 1, p10=10**P, two54=2**54, two53=2**53)
    t = time.time()
    r = subprocess.run(["z3", "-in", "-T:120"], input=smt, stdout=subprocess.PIPE, stderr=subprocess.STDOUT, text=True)
    out = r.stdout
    first = out.split()[0] if out.split() else ""
    errs = [l for l in out.splitlines() if "(error" in l and not (first == "unsat" and "model is not available" in l)]
    if errs or first not in ("sat", "unsat"):
        return dict(verdict="inconclusive", out=out[-300:], solver_s=time.time() - t)
    res = dict(verdict=out.split()[0], solver_s=time.time() - t)
    m = re.search(r"\(m (\d+)\)", out)
    if m:
        res["m"] = int(m.group(1))
    return res

def replay(wd, P, m):
    src = os.path.join(wd, "numrt.c")
    open(src, "w").write('#include <stdio.h>\n#include <stdlib.h>\n#include <math.h>\nint main(int c,char**v){ long long m=atoll(v[1]); int bad=0; for(int i=0;i<2;++i){ double d=ldexp((double)(m+i),-54); char b[64]; snprintf(b,sizeof b,"%%.%dg",d); double e=strtod(b,0); printf("%%.17g -> %%s -> %%.17g %%s\\n",d,b,e,d==e?"same":"DIFFERENT"); if(d!=e) bad=1;} return bad; }\n' % P)
    exe = os.path.join(wd, "numrt")
    subprocess.run(["gcc", "-O1", src, "-lm", "-o", exe], stdout=subprocess.DEVNULL, stderr=subprocess.DEVNULL)
    r = subprocess.run([exe, str(m)], stdout=subprocess.PIPE, text=True)
    return dict(differs=(r.returncode == 1), output=r.stdout.strip().splitlines())

def check(tier, findings, rundir, say):
    res = dict(name="c12-number-rendering", known=[], violations=[], broken=False, samples=[], queries=0, solver_s=0.0, assertions=0, assertions_passed=0, instances=0, instances_ok=0, steps=0, replays=0, notes=[])
    src = open(os.path.join(V.REPO, "blocc", "value.cpp")).read()
    body = src[src.index("Value::readableNumeric"):]
    m = re.search(r'"%\.(\d+)g"', body[:400])
    if not m:
        res["broken"] = True; res["notes"].append("no %.Ng format found in Value::readableNumeric"); return res
    P = int(m.group(1))
    wd = os.path.join(rundir, "c12num"); os.makedirs(wd, exist_ok=True)
    kf = {f["id"]: f for f in findings if f.get("status") == "known"}
    for prec, expect in ((P, None), (17, "unsat")):
        q = query(prec); res["queries"] += 1; res["instances"] += 1; res["solver_s"] += q["solver_s"]; res["assertions"] += 1
        if q["verdict"] == "inconclusive":
            res["broken"] = True; res["notes"].append("z3: %s" % q.get("out")); continue
        res["instances_ok"] += 1
        if prec == 17:
            if q["verdict"] != "unsat":
                res["broken"] = True; res["notes"].append("sanity query (17 digits) is not unsat: encoding suspect")
            else:
                res["assertions_passed"] += 1
            res["samples"].append(dict(query="17 significant digits identify every double in [0.25,0.5)", verdict=q["verdict"]))
            continue
        if q["verdict"] == "unsat":
            res["assertions_passed"] += 1
            res["samples"].append(dict(query="%d significant digits identify every double in [0.25,0.5)" % prec, verdict="unsat (holds)"))
        else:
            rp = replay(wd, prec, q["m"]); res["replays"] += 1
            sample = dict(query="two adjacent doubles with the same %%.%dg rendering" % prec, m=q["m"], libc_replay=rp)
            res["samples"].append(sample)
            if rp["differs"] and "KF_NUMERIC_RENDERING_PRECISION" in kf:
                res["known"].append(("KF_NUMERIC_RENDERING_PRECISION", kf["KF_NUMERIC_RENDERING_PRECISION"]["what"], "c12num P=%d" % prec))
            elif rp["differs"]:
                os.makedirs(os.path.join(V.OUT, "replay", "C12"), exist_ok=True)
                path = os.path.join(V.OUT, "replay", "C12", "c12num.json"); json.dump(sample, open(path, "w"), indent=1)
                res["violations"].append(("c12.number-rendering", path, ["C12: %%.%dg does not round-trip %s" % (prec, rp["output"])]))
            else:
                res["broken"] = True; res["notes"].append("solver witness does not reproduce with the libc")
    say("  [C12] number rendering: format %%.%dg read from value.cpp; %d queries, known %d, violations %d %s" % (P, res["queries"], len(res["known"]), len(res["violations"]), "; ".join(res["notes"])))
    return res
