"""container kernels (C09)."""
from vxlib import Inst, CORE_TUS, FMT_STUBS, CTX_STUBS, CONTAINER_STUBS

def instances():
    out = []
    for l1 in range(1, 7):
        for l2 in range(l1, 7):
            quick = (l1 + l2 <= 6 and l2 <= 4) or (l1, l2) in ((1, 6),)
            out.append(Inst(id="c09.tupleid.%d_%d" % (l1, l2), props=["C09"], harness="h_c09.cpp", entry="c09_tuple_id",
                            tus=["blocc/tuple_decl.cpp"], defs=["VX_L1=%d" % l1, "VX_L2=%d" % l2], stubs=FMT_STUBS + ["_ZNK4bloc9TupleDecl4Decl9tupleNameB5cxx11Ev"],
                            unwind=8, timeout=300, tier="quick" if quick else "thorough", backends=("z3", "sat"),
                            bounds="tuple structures of %d and %d items over the 6 scalar item types" % (l1, l2), inputs="item types of both structures"))
    return out
