"""container kernels (C09)."""
from vxlib import Inst, CORE_TUS, FMT_STUBS, CTX_STUBS, CONTAINER_STUBS, EMPTY_DECL_UNWIND

def instances():
    out = []
    for l1 in range(1, 7):
        for l2 in range(l1, 7):
            quick = (l1 + l2 <= 6 and l2 <= 4) or (l1, l2) in ((1, 6),)
            out.append(Inst(id="c09.tupleid.%d_%d" % (l1, l2), props=["C09"], harness="h_c09.cpp", entry="c09_tuple_id",
                            tus=["blocc/tuple_decl.cpp"], defs=["VX_L1=%d" % l1, "VX_L2=%d" % l2], stubs=FMT_STUBS + ["_ZNK4bloc9TupleDecl4Decl9tupleNameB5cxx11Ev"],
                            unwind=8, timeout=300, tier="quick" if quick else "thorough", backends=("z3", "sat"),
                            bounds="tuple structures of %d and %d items over the 6 scalar item types" % (l1, l2), inputs="item types of both structures"))
    TT = CORE_TUS + ["blocc/member/member_insert.cpp", "blocc/member/member_put.cpp", "blocc/expression_member.cpp"]
    for yl in (1, 0):
        out.append(Inst(id="c09.insert.nulltuple.%s" % ("var" if yl else "tmp"), props=["C09", "C01"], harness="h_tables.cpp", entry="c09_insert_null_tuple", tus=TT, defs=["VX_YLVAL=%d" % yl],
                        stubs=FMT_STUBS + CTX_STUBS + ["_ZN4bloc7ComplexC2EOS0_", "_ZN4bloc7ComplexC2ERKS0_", "_ZN4bloc7ComplexC2EtPv", "_ZN4bloc7ComplexD2Ev"],
                        unwind=4, timeout=900, quick_also=["C01"], bounds="table of one 1-item tuple; argument a null tuple", inputs="position (int64 / null), tuple item value"))
    out.append(Inst(id="c09.put.scalar_into_2dim", props=["C09", "C01"], harness="h_tables.cpp", entry="c09_put_scalar_into_2dim", tus=TT, stubs=FMT_STUBS + CTX_STUBS + ["_ZN4bloc7ComplexC2EOS0_", "_ZN4bloc7ComplexC2ERKS0_", "_ZN4bloc7ComplexC2EtPv", "_ZN4bloc7ComplexD2Ev"],
                    unwind=4, timeout=900, bounds="[[integer]] table with one inner table of one integer", inputs="argument value, null flag, lvalue flag"))
    PUT_STUBS = FMT_STUBS + CTX_STUBS + ["_ZN4bloc7ComplexC2EOS0_", "_ZN4bloc7ComplexC2ERKS0_", "_ZN4bloc7ComplexC2EtPv", "_ZN4bloc7ComplexD2Ev"]
    for rl, al in ((0, 1), (1, 1), (0, 0), (1, 0)):
        out.append(Inst(id="c05.put.%s.%s" % ("var" if rl else "tmp", "var" if al else "tmp"), props=["C05", "C09", "C01"], harness="h_tables.cpp", entry="c05_put_copy", tus=TT,
                        defs=["VX_RECV_LVAL=%d" % rl, "VX_ARG_LVAL=%d" % al], stubs=PUT_STUBS, unwind=4, unwindset=EMPTY_DECL_UNWIND, timeout=600,
                        tier="quick" if al else "thorough", quick_also=["C09"] if (rl, al) == (0, 1) else [],
                        bounds="put(p, x) on a table of 2 integers; receiver is a %s, argument a %s" % ("variable" if rl else "temporary", "variable" if al else "temporary"),
                        inputs="value, position"))
    IT = CORE_TUS + ["blocc/expression_item.cpp", "blocc/member/member_insert.cpp", "blocc/expression_member.cpp"]
    for nr in (0, 1):
        out.append(Inst(id="c09.item%s" % (".nullrecv" if nr else ""), props=["C09", "C01"], harness="h_item.cpp", entry="c09_item", tus=IT, defs=["VX_NULLRECV=%d" % nr],
                        stubs=PUT_STUBS, unwind=4, unwindset=["_ZNSt8__detail18__to_chars_10_implIjEEvPcjT_.0:7", "_ZNSt8__detail14__to_chars_lenIjEEjT_i.0:7"], timeout=600, quick_also=["C01"] if not nr else [], tier="quick" if not nr else "thorough",
                        bounds="t@N on a tuple of 2 items (integer, boolean)%s; every index" % (" that is null" if nr else ""), inputs="index (32 bits), item values, lvalue flag"))
    for same in (0, 1):
        out.append(Inst(id="c09.insert.structure.%s" % ("same" if same else "other"), props=["C09", "C01"], harness="h_item.cpp", entry="c09_insert_structure", tus=IT, defs=["VX_SAME=%d" % same],
                        stubs=PUT_STUBS, unwind=4, timeout=900, tier="quick" if not same else "thorough",
                        bounds="insert(0, x) into a table of one {integer, boolean} row; x a tuple of %s structure whose type is opaque at compile time" % ("the same" if same else "another"), inputs="item values"))
    return out
