"""bloc command kernels (C19)."""
from vxlib import Inst, FMT_STUBS, CONTAINER_STUBS
def instances():
    out = []
    for shape, o in (("N", 0), ("NA", 0), ("NAA", 0), ("ON", 0), ("ON", 1), ("ON", 3), ("ONA", 2), ("OON", 4), ("OONA", 5), ("ONA", 5)):
        out.append(Inst(id="c19.getcmd.%s.o%d" % (shape, o), props=["C19"], harness="h_c19.cpp", entry="c19_getcmd", tus=["apps/main_options.cpp"], defs=['VX_ARGS="%s"' % shape, "VX_O=%d" % o],
                        unwind=10, timeout=600, tier="quick" if len(shape) <= 3 else "thorough",
                        bounds="argument vector shape %s (O recognised option no. %d.., N first non-option, A arbitrary), arguments <= 2 bytes" % (shape, o), inputs="argument bytes"))
    for shape in ("NA", "NAA"):
        out.append(Inst(id="c19.getcmd.dash.%s" % shape, props=["C19"], harness="h_c19.cpp", entry="c19_getcmd", tus=["apps/main_options.cpp"], defs=['VX_ARGS="%s"' % shape, "VX_DASH=1"],
                        unwind=10, timeout=600, bounds="program given as \"-\" (standard input) followed by arbitrary arguments (may look like options)", inputs="argument bytes"))
    out.append(Inst(id="c19.getcmd.dash.ONA", props=["C19"], harness="h_c19.cpp", entry="c19_getcmd", tus=["apps/main_options.cpp"], defs=['VX_ARGS="ONA"', "VX_DASH=1"],
                    unwind=10, timeout=600, bounds="shape ONA with the program given as \"-\" (standard input)", inputs="argument bytes, which option"))
    return out
