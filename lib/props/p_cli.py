"""bloc command kernels (C19)."""
from vxlib import Inst, FMT_STUBS, CONTAINER_STUBS, CTX_STUBS, CORE_TUS, EMPTY_DECL_UNWIND
def instances():
    out = []
    for shape, o in (("N", 0), ("NA", 0), ("NAA", 0), ("ON", 0), ("ON", 1), ("ON", 3), ("ONA", 2), ("OON", 4), ("OONA", 5), ("ONA", 5)):
        out.append(Inst(id="c19.getcmd.%s.o%d" % (shape, o), props=["C19"], harness="h_c19.cpp", entry="c19_getcmd", tus=["apps/main_options.cpp"], defs=['VX_ARGS="%s"' % shape, "VX_O=%d" % o],
                        unwind=10, timeout=600, tier="quick" if len(shape) <= 3 else "thorough",
                        bounds="argument vector shape %s (O recognised option no. %d.., N first non-option, A arbitrary), arguments <= 2 bytes" % (shape, o), inputs="argument bytes"))
    for shape in ("NA", "NAA"):
        out.append(Inst(id="c19.getcmd.dash.%s" % shape, props=["C19"], harness="h_c19.cpp", entry="c19_getcmd", tus=["apps/main_options.cpp"], defs=['VX_ARGS="%s"' % shape, "VX_DASH=1"],
                        unwind=10, timeout=600, bounds="program given as \"-\" (standard input) followed by arbitrary arguments (may look like options)", inputs="argument bytes"))
    out.append(Inst(id="c19.getcmd.dash.ONA", props=["C19"], harness="h_c19.cpp", entry="c19_getcmd", tus=["apps/main_options.cpp"], defs=['VX_ARGS="ONA"', "VX_DASH=1"],
                    unwind=10, timeout=600, bounds="shape ONA with the program given as \"-\" (standard input)", inputs="argument bytes, which option"))
    RSTUBS = ["_ZN4bloc5Value15readableNumericB5cxx11ERd", "_ZN4bloc5Value17readableImaginaryB5cxx11ERNS_9ImaginaryE", "_ZN4bloc5Value15readableIntegerB5cxx11ERl"]
    MT = [t for t in CORE_TUS if t != "blocc/executable.cpp"] + ["apps/main.cpp", "apps/main_options.cpp", "apps/read_file.cpp", "blocc/string_reader.cpp"]
    for n in (0, 2, 3):
        out.append(Inst(id="c19.main.args%d" % n, props=["C19", "C01"], harness="h_main.cpp", entry="c19_main", tus=MT, defs=["VX_NARG=%d" % n],
                        stubs=FMT_STUBS + RSTUBS + CTX_STUBS[2:] + CONTAINER_STUBS + ["_ZN4bloc6Parser23createInteractiveParserERNS_7ContextERNS0_12StreamReaderE", "_ZN4bloc6Parser15parseExpressionEv"],
                        noops=CTX_STUBS[:2] + ["_ZN4bloc13PluginManager7destroyEv"],      # teardown of the context at exit: empty bodies
                        unwind=6, unwindset=EMPTY_DECL_UNWIND, timeout=2400, truncate_long=True, tier="thorough" if n == 2 else "experimental",
                        bounds="bloc p.b + %d program arguments (fixed strings, one looks like an option); collaborators stubbed" % n,
                        inputs="outcome of fopen, of compiling (ok / parse error / nothing), of running (ok / runtime error)"))
    OT = CORE_TUS + ["apps/main_options.cpp", "apps/read_file.cpp"]
    RET = {0: "nothing", 1: "boolean", 2: "integer", 3: "decimal", 4: "string", 6: "complex", 7: "table", 8: "null", 9: "typednull", 10: "bytes"}
    for k, nm in RET.items():
        out.append(Inst(id="c19.output.%s" % nm, props=["C19", "C01"], harness="h_output.cpp", entry="c19_output", tus=OT, defs=["VX_RET=%d" % k],
                        stubs=FMT_STUBS + RSTUBS,
                        unwind=26, unwindset=EMPTY_DECL_UNWIND, timeout=600, truncate_long=True,
                        bounds="output() of apps/main.cpp on a context whose output stream is a fresh file; returned value of kind %s, every payload (strings up to 3 bytes); number rendering (to_string / %%.16g) cut: a fixed token per kind" % nm,
                        inputs="payload of the returned value"))
    PT = CORE_TUS + ["blocc/statement_print.cpp", "blocc/statement_put.cpp"]
    KN = {"n": "K_NOTYPE", "b": "K_BOOLEAN", "i": "K_INTEGER", "d": "K_NUMERIC", "s": "K_LITERAL"}
    for stmt, eol in (("PRINTStatement", 1), ("PUTStatement", 0)):
        for k0, k1, q in (("i", "s", True), ("s", "b", True), ("d", "n", True), ("I", "s", True), ("s", "S", False), ("b", "i", False), ("s", "s", False), ("n", "D", False)):
            out.append(Inst(id="c19.%s.%s%s" % ("print" if eol else "put", k0, k1), props=["C19", "C05", "C01"], harness="h_print.cpp", entry="c19_print", tus=PT,
                            defs=["VX_K0=%s" % KN[k0.lower()], "VX_K1=%s" % KN[k1.lower()], "VX_N0=%d" % k0.isupper(), "VX_N1=%d" % k1.isupper(), "VX_STMT=%s" % stmt, "VX_EOL=%d" % eol], stubs=FMT_STUBS + RSTUBS + CONTAINER_STUBS,
                            unwind=26, unwindset=EMPTY_DECL_UNWIND, timeout=600, truncate_long=True, tier="experimental" if eol else ("quick" if q else "thorough"), quick_also=[],      # print: symbolic execution explores the byte-dump branches and does not finish
                            bounds="%s::doit with two arguments of kinds %s, %s (upper case: typed null; n: untyped null) on a context whose output is a fresh file; strings <= 2 bytes; number rendering cut (fixed token per kind)" % (stmt, k0, k1),
                            inputs="payloads, lvalue flags"))
    return out
