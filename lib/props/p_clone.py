"""clone independence kernels (C14)."""
from vxlib import Inst, CORE_TUS, FMT_STUBS, CTX_STUBS, CONTAINER_STUBS, EMPTY_DECL_UNWIND
def instances():
    out = []
    out.append(Inst(id="c14.clone.1var", props=["C14", "C05"], harness="h_c14.cpp", entry="c14_clone", tus=CORE_TUS, defs=["VX_ONEVAR=1"], stubs=FMT_STUBS + CTX_STUBS + CONTAINER_STUBS,
                    unwind=3, unwindset=EMPTY_DECL_UNWIND, timeout=900, bounds="context with one integer variable", inputs="value, null flag, trusted flag, value written afterwards"))
    out.append(Inst(id="c14.clone", props=["C14", "C05"], harness="h_c14.cpp", entry="c14_clone", tus=CORE_TUS, stubs=FMT_STUBS + CTX_STUBS + CONTAINER_STUBS,
                    unwind=4, unwindset=EMPTY_DECL_UNWIND, timeout=3000, tier="thorough", bounds="context with one integer and one 1-byte string variable", inputs="values, null flag, trusted flag, values written afterwards"))
    out.append(Inst(id="c14.execute", props=["C14"], harness="h_c14.cpp", entry="c14_execute", tus=CORE_TUS, stubs=FMT_STUBS + CTX_STUBS + CONTAINER_STUBS,
                    unwind=3, unwindset=EMPTY_DECL_UNWIND, timeout=600, bounds="one statement executed once at nesting level 0 or 1", inputs="level stamped by an earlier execution (another clone), nesting"))
    out.append(Inst(id="c14.runtime", props=["C14", "C08"], harness="h_c14.cpp", entry="c14_runtime", tus=CORE_TUS, stubs=FMT_STUBS + CTX_STUBS + CONTAINER_STUBS,
                    unwind=3, unwindset=EMPTY_DECL_UNWIND, timeout=600, bounds="empty contexts", inputs="recursion depth"))
    return out
