"""C API kernels (C15, C01)."""
from vxlib import Inst, CORE_TUS, FMT_STUBS, CTX_STUBS, CONTAINER_STUBS

KN = {"n": "K_NOTYPE", "b": "K_BOOLEAN", "i": "K_INTEGER", "d": "K_NUMERIC", "s": "K_LITERAL", "t": "K_TABCHAR", "c": "K_IMAGINARY"}
TUS = CORE_TUS + ["blocc/bloc_capi.cpp"]

def instances():
    out = []
    for k, kn in KN.items():
        out.append(Inst(id="capi.accessors.%s" % k, props=["C15", "C01"], harness="h_capi.cpp", entry="c15_accessors", tus=TUS,
                        defs=["VX_VK=%s" % kn], stubs=FMT_STUBS + CTX_STUBS + CONTAINER_STUBS, unwind=4, timeout=240,
                        bounds="string / bytes payload <= 2 bytes; value kind fixed per instance",
                        inputs="null flag, lvalue flag, payload (int64, double, bool, 2 bytes, length)"))
    out.append(Inst(id="capi.creators", props=["C15", "C01"], harness="h_capi.cpp", entry="c15_creators", tus=TUS,
                    defs=["VX_VK=K_INTEGER"], stubs=FMT_STUBS + CTX_STUBS + CONTAINER_STUBS, unwind=4, timeout=240,
                    bounds="strings <= 2 bytes", inputs="payloads, NULL-vs-text choice, lvalue flag"))
    return out
