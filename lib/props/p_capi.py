"""C API kernels (C15, C01)."""
from vxlib import Inst, CORE_TUS, FMT_STUBS, CTX_STUBS, CONTAINER_STUBS, EMPTY_DECL_UNWIND

KN = {"n": "K_NOTYPE", "b": "K_BOOLEAN", "i": "K_INTEGER", "d": "K_NUMERIC", "s": "K_LITERAL", "t": "K_TABCHAR", "c": "K_IMAGINARY"}
TUS = CORE_TUS + ["blocc/bloc_capi.cpp"]

def instances():
    out = []
    for k, kn in KN.items():
        out.append(Inst(id="capi.accessors.%s" % k, props=["C15", "C01"], harness="h_capi.cpp", entry="c15_accessors", tus=TUS,
                        defs=["VX_VK=%s" % kn], stubs=FMT_STUBS + CTX_STUBS + CONTAINER_STUBS, unwind=4, timeout=240,
                        bounds="string / bytes payload <= 2 bytes; value kind fixed per instance",
                        inputs="null flag, lvalue flag, payload (int64, double, bool, 2 bytes, length)"))
    out.append(Inst(id="capi.creators", props=["C15", "C01"], harness="h_capi.cpp", entry="c15_creators", tus=TUS,
                    defs=["VX_VK=K_INTEGER"], stubs=FMT_STUBS + CTX_STUBS + CONTAINER_STUBS, unwind=4, timeout=240,
                    bounds="strings <= 2 bytes", inputs="payloads, NULL-vs-text choice, lvalue flag"))
    from vxlib import EMPTY_DECL_UNWIND
    out.append(Inst(id="capi.store_load", props=["C15", "C01"], harness="h_capi.cpp", entry="c15_store_load", tus=TUS + ["blocc/string_reader.cpp"], defs=["VX_VK=K_INTEGER"],
                    stubs=FMT_STUBS + CTX_STUBS + CONTAINER_STUBS, unwind=4, unwindset=EMPTY_DECL_UNWIND, timeout=600, bounds="one symbol; integer then 1-byte string", inputs="integer value, null flag, string byte"))
    out.append(Inst(id="capi.items", props=["C15", "C01"], harness="h_capi.cpp", entry="c15_items", tus=TUS, defs=["VX_VK=K_INTEGER"],
                    stubs=FMT_STUBS + CTX_STUBS + [x for x in CONTAINER_STUBS if "Complex" in x], unwind=4, unwindset=EMPTY_DECL_UNWIND, timeout=600, bounds="table and tuple of 2 items", inputs="index (all of unsigned)"))
    out.append(Inst(id="capi.evaluate", props=["C15", "C01"], harness="h_capi.cpp", entry="c15_evaluate", tus=TUS, defs=["VX_VK=K_INTEGER"],
                    stubs=FMT_STUBS + CTX_STUBS + CONTAINER_STUBS, unwind=4, unwindset=EMPTY_DECL_UNWIND, timeout=600, bounds="one expression node", inputs="whether evaluation raises, value"))
    out.append(Inst(id="c01.accessors", props=["C01", "C15"], harness="h_accessors.cpp", entry="c01_accessors", tus=CORE_TUS,
                    stubs=FMT_STUBS + CTX_STUBS + CONTAINER_STUBS, unwind=3, unwindset=EMPTY_DECL_UNWIND, timeout=300,
                    bounds="a value of any major type (10), 0..3 dimensions, any tuple / module id; null, or an integer payload", inputs="major type, dimensions, minor id, payload"))
    return out
