"""module object life-cycle kernels (C17) and permission kernels (C16)."""
from vxlib import Inst, CORE_TUS, FMT_STUBS, CTX_STUBS, CONTAINER_STUBS, EMPTY_DECL_UNWIND
OPS = {0: "copy", 1: "assign", 2: "swap", 3: "destroy", 4: "valueclone", 5: "valuemove"}
def instances():
    out = []
    for op, n in OPS.items():
        out.append(Inst(id="c17.refcount.%s" % n, props=["C17", "C01"], harness="h_c17.cpp", entry="c17_refcount", tus=CORE_TUS + ["blocc/plugin.cpp"],
                        defs=["VX_OP=%d" % op], stubs=FMT_STUBS + CTX_STUBS + [s for s in CONTAINER_STUBS if "Complex" not in s], unwind=4, unwindset=EMPTY_DECL_UNWIND, timeout=400,
                        bounds="one operation from an arbitrary consistent state of 3 handles over 2 objects (inductive step over histories)",
                        inputs="which object each handle shares, which handles the operation is applied to"))
    return out
