"""module object life-cycle kernels (C17) and permission kernels (C16)."""
from vxlib import Inst, CORE_TUS, FMT_STUBS, CTX_STUBS, CONTAINER_STUBS, EMPTY_DECL_UNWIND
OPS = {0: "copy", 1: "assign", 2: "swap", 3: "destroy", 4: "valueclone", 5: "valuemove"}
def instances():
    out = []
    for op, n in OPS.items():
        out.append(Inst(id="c17.refcount.%s" % n, props=["C17", "C01"], harness="h_c17.cpp", entry="c17_refcount", tus=CORE_TUS + ["blocc/plugin.cpp"],
                        defs=["VX_OP=%d" % op], stubs=FMT_STUBS + CTX_STUBS + [s for s in CONTAINER_STUBS if "Complex" not in s], unwind=4, unwindset=EMPTY_DECL_UNWIND, timeout=400,
                        bounds="one operation from an arbitrary consistent state of 3 handles over 2 objects (inductive step over histories)",
                        inputs="which object each handle shares, which handles the operation is applied to"))
    out.append(Inst(id="c17.dispatch", props=["C17", "C01"], harness="h_c17.cpp", entry="c17_dispatch", tus=CORE_TUS + ["blocc/plugin.cpp", "blocc/member/member_complex.cpp", "blocc/expression_member.cpp"],
                    stubs=FMT_STUBS + CTX_STUBS + [s for s in CONTAINER_STUBS if "Complex" not in s], unwind=4, timeout=400,
                    bounds="one compiled method call (module id 1) on a receiver whose object belongs to module 1 or 2, or is null", inputs="module id of the receiver's object, null flag"))
    PTUS = [t for t in CORE_TUS] + ["blocc/expression_complex_ctor.cpp", "blocc/statement_import.cpp", "blocc/plugin.cpp"]
    combos = [("A", "A", "B", 1), ("A", "B", "A", 5), ("A", "A", "B", 3), ("AB", "A", "AB", 4), ("A", "B", "B", 5), ("A", "A", "A", 7), ("A", "A", "B", 0), ("AB", "AB", "A", 1),
              ("A", "AB", "B", 5), ("A", "A", "B", 7), ("B", "A", "B", 6), ("A", "A", "B", 2)]
    for k, (mn, g1, g2, hist) in enumerate(combos):
        out.append(Inst(id="c16.ctor.gate.%d" % k, props=["C16", "C01"], harness="h_c16.cpp", entry="c16_ctor", tus=PTUS,
                        defs=["VX_GATE=1", 'VX_MOD="%s"' % mn, 'VX_G1="%s"' % g1, 'VX_G2="%s"' % g2, "VX_HIST=%d" % hist], stubs=FMT_STUBS + CTX_STUBS + CONTAINER_STUBS, unwind=4, unwindset=EMPTY_DECL_UNWIND,
                        truncate_long=True, timeout=600, mem_gb=8, tier="quick" if k < 7 else "thorough",
                        bounds="module name %s; history: %s%s%s (instance parameters); the text after the name is not a call" % (mn, "grant %s; " % g1 if hist & 1 else "", "clear; " if hist & 2 else "", "grant %s" % g2 if hist & 4 else ""),
                        inputs="trusted flag"))
        out.append(Inst(id="c16.ctor.full.%d" % k, props=["C16", "C01"], harness="h_c16.cpp", entry="c16_ctor", tus=PTUS,
                        defs=['VX_MOD="%s"' % mn, 'VX_G1="%s"' % g1, 'VX_G2="%s"' % g2, "VX_HIST=%d" % hist], stubs=FMT_STUBS + CTX_STUBS + CONTAINER_STUBS, unwind=4, unwindset=EMPTY_DECL_UNWIND,
                        truncate_long=True, timeout=3000, mem_gb=16, tier="thorough",
                        bounds="as the gate kernel, with an arbitrary token stream of <= 2 arguments after the name", inputs="trusted flag, tokens, stub results"))
    out.append(Inst(id="c16.import", props=["C16", "C01"], harness="h_c16.cpp", entry="c16_import", tus=PTUS, stubs=FMT_STUBS + CTX_STUBS + CONTAINER_STUBS, unwind=4, unwindset=EMPTY_DECL_UNWIND,
                    truncate_long=True,
                    timeout=600, bounds="arbitrary first tokens over 5 token kinds", inputs="trusted flag, tokens, type of the path expression"))
    out.append(Inst(id="c16.flags", props=["C16", "C14"], harness="h_c16.cpp", entry="c16_flags", tus=PTUS, stubs=FMT_STUBS + CTX_STUBS + CONTAINER_STUBS, unwind=3, unwindset=EMPTY_DECL_UNWIND,
                    timeout=600, bounds="empty context", inputs="trusted flag, another flag"))
    return out
