"""loop / conditional kernels (C06, C01, C02)."""
from vxlib import Inst, CORE_TUS, SCALAR_STUBS, FMT_STUBS, CTX_STUBS, CONTAINER_STUBS, EMPTY_DECL_UNWIND

FA_TUS = [t for t in CORE_TUS if t != "blocc/executable.cpp"] + ["blocc/statement_forall.cpp", "blocc/expression_variable.cpp"]
TUS = [t for t in CORE_TUS if t != "blocc/executable.cpp"] + ["blocc/statement_for.cpp", "blocc/expression_variable.cpp"]

def instances():
    out = []
    for o, on in (("auto", "FORStatement::AUTO"), ("asc", "FORStatement::ASC"), ("desc", "FORStatement::DESC")):
        out.append(Inst(id="c06.for.first.%s" % o, props=["C06", "C01"], harness="h_c06.cpp", entry="c06_for_first", tus=TUS,
                        defs=["VX_ORDER=%s" % on], stubs=SCALAR_STUBS, unwind=3, timeout=300,
                        bounds="none: begin, end, step over all of int64, each possibly null; direction fixed per instance",
                        inputs="begin, end, step (int64), null flags, presence of a step expression, previous safety flag"))
    out.append(Inst(id="c06.for.step", props=["C06", "C01"], harness="h_c06.cpp", entry="c06_for_step", tus=TUS,
                    stubs=SCALAR_STUBS, unwind=3, timeout=300,
                    bounds="one re-entry from an arbitrary valid iteration record (inductive step: covers every number of iterations); all int64",
                    inputs="iterator, min, max, step (int64), saved safety flag, body action (none/break/continue/return)"))
    for st in (1, 2):
        for desc in (0, 1):
            out.append(Inst(id="c06.for.run.s%d%s" % (st, "d" if desc else "a"), props=["C06", "C01"], harness="h_c06.cpp", entry="c06_for_run", tus=TUS,
                            defs=["VX_STEP=%d" % st, "VX_DESC=%d" % desc], stubs=SCALAR_STUBS, unwind=3, timeout=600, tier="quick" if (st, desc) in ((1, 0), (2, 1)) else "thorough",
                            bounds="complete runs of <= 4 iterations, step and direction fixed per instance, |first| < 10^6, break at any iteration",
                            inputs="first, iteration count, limit slack, break position"))
    for fe, nm in ((0, ""), (1, ".inside")):
        out.append(Inst(id="c06.forall.final" + nm, props=["C06", "C07", "C17", "C01"] if fe else ["C06", "C07", "C01"], harness="h_c06.cpp", entry="c06_forall_final", tus=FA_TUS + ["blocc/statement_for.cpp"],
                        defs=["VX_FEXP=%d" % fe], quick_also=["C17", "C01", "C07"] if fe else None,
                        stubs=FMT_STUBS + CTX_STUBS + ["_ZN4bloc10CollectionC2ERKS0_", "_ZN4bloc10CollectionD0Ev", "_ZN4bloc10CollectionD2Ev"] + CONTAINER_STUBS[3:], unwind=3, timeout=300,
                        bounds="one exit from an arbitrary iteration record (covers every exit route and loop length); iterated expression: " + ("a selection inside a variable (forwards the symbol id, is not a variable name)" if fe else "the table variable"),
                        inputs="saved safety / lock flags of iterator and table, index, direction"))
    for o, on in (("auto", "FORALLStatement::AUTO"), ("desc", "FORALLStatement::DESC")):
        out.append(Inst(id="c06.forall.run.%s" % o, props=["C06", "C09", "C01"], harness="h_c06.cpp", entry="c06_forall_run", tus=FA_TUS + ["blocc/statement_for.cpp"],
                        defs=["VX_FORDER=%s" % on], stubs=FMT_STUBS + CTX_STUBS + CONTAINER_STUBS[3:], unwind=4, timeout=3000, tier="thorough",
                        bounds="table variable of 2 integers, complete traversal", inputs="element values, whether the body writes through the iterator, written value"))
    CT = [t for t in CORE_TUS if t != "blocc/executable.cpp"] + ["blocc/statement_if.cpp", "blocc/statement_while.cpp"]
    for rules, els, unt, q in ((1, 0, 0, True), (1, 1, 1, True), (2, 1, 0, True), (2, 1, 3, False), (2, 0, 1, False), (3, 1, 2, False)):
        out.append(Inst(id="c04.if.r%d%s.u%d" % (rules, "e" if els else "", unt), props=["C04", "C06", "C01"], harness="h_cond.cpp", entry="c04_if", tus=CT,
                        defs=["VX_RULES=%d" % rules, "VX_ELSE=%d" % els, "VX_UNTYPED=%d" % unt], stubs=FMT_STUBS + CTX_STUBS + CONTAINER_STUBS, unwind=6, unwindset=EMPTY_DECL_UNWIND, timeout=300,
                        tier="quick" if q else "thorough", quick_also=["C06"] if (rules, els) == (2, 1) and q else [],
                        bounds="if with %d conditional rule(s)%s; null conditions are %s" % (rules, " and else" if els else "", "untyped where bit k of %d is set, typed boolean nulls otherwise" % unt),
                        inputs="per condition: truth value, null flag, lvalue flag"))
    for unt in (0, 1):
        out.append(Inst(id="c04.while.u%d" % unt, props=["C04", "C06", "C01"], harness="h_cond.cpp", entry="c04_while", tus=CT,
                        defs=["VX_UNTYPED=%d" % unt], stubs=FMT_STUBS + CTX_STUBS + CONTAINER_STUBS, unwind=6, unwindset=EMPTY_DECL_UNWIND, timeout=300, quick_also=["C06"],
                        bounds="one step of while (first entry or re-entry); a null condition is the %s" % ("untyped null" if unt else "typed boolean null"),
                        inputs="truth value, null flag, lvalue flag of the condition; first entry or re-entry; what the body requests (nothing, break, continue, return)"))
    return out
