"""error handling kernels (C07)."""
from vxlib import Inst, CORE_TUS, FMT_STUBS, CTX_STUBS, CONTAINER_STUBS

TUS = [t for t in CORE_TUS if t != "blocc/executable.cpp"] + ["blocc/statement_begin.cpp"]
QUICK = {(1, 0), (2, 0), (3, 0), (5, 0), (0, 0), (1, 1), (3, 2), (4, 2), (1, 3), (1, 4), (2, 5)}

def instances():
    out = []
    for kind in range(6):
        for cl in range(6):
            out.append(Inst(id="c07.begin.k%d.c%d" % (kind, cl), props=["C07", "C15", "C14", "C01"], harness="h_c07.cpp", entry="c07_begin", tus=TUS,
                            defs=["VX_KIND=%d" % kind, "VX_CL=%d" % cl], stubs=FMT_STUBS + CTX_STUBS + CONTAINER_STUBS,
                            unwind=4, timeout=400, tier="quick", mem_gb=12,
                            bounds="raised kind and clause list are instance parameters (6 kinds x 6 clause lists of <= 2 clauses)",
                            inputs="whether the selected handler itself raises; whether the block is nested in another"))
    return out
