"""error handling kernels (C07)."""
from vxlib import Inst, CORE_TUS, FMT_STUBS, CTX_STUBS, CONTAINER_STUBS, EMPTY_DECL_UNWIND

TUS = [t for t in CORE_TUS if t != "blocc/executable.cpp"] + ["blocc/statement_begin.cpp"]
QUICK = {(1, 0), (2, 0), (3, 0), (5, 0), (0, 0), (1, 1), (3, 2), (4, 2), (1, 3), (1, 4), (2, 5)}

def instances():
    out = []
    for kind in range(6):
        for cl in range(6):
            out.append(Inst(id="c07.begin.k%d.c%d" % (kind, cl), props=["C07", "C15", "C14", "C06", "C01"], harness="h_c07.cpp", entry="c07_begin", tus=TUS,
                            defs=["VX_KIND=%d" % kind, "VX_CL=%d" % cl], stubs=FMT_STUBS + CTX_STUBS + CONTAINER_STUBS,
                            unwind=4, timeout=400, tier="quick", mem_gb=12,
                            bounds="raised kind and clause list are instance parameters (6 kinds x 6 clause lists of <= 2 clauses)",
                            inputs="whether the selected handler itself raises; whether the block is nested in another"))
    QR = {(1, 2, "0040"), (2, 2, "4000"), (1, 1, "0004"), (1, 2, "0100"), (1, 2, "3000"), (1, 2, "0000"), (1, 2, "0005"), (1, 1, "0005")}
    for lo, li in ((1, 1), (1, 2), (2, 2), (2, 3), (1, 3)):
        for acts in ("0000", "0100", "0010", "2000", "3000", "0003", "4000", "0400", "0040", "0004", "0140", "0005"):
            out.append(Inst(id="c07.run.l%d%d.a%s" % (lo, li, acts), props=["C07", "C06", "C01"], harness="h_run.cpp", entry="c07_run", tus=CORE_TUS,
                            defs=["VX_LO=%d" % lo, "VX_LI=%d" % li, 'VX_ACTS="%s"' % acts],
                            stubs=FMT_STUBS + CTX_STUBS + CONTAINER_STUBS, unwind=6, unwindset=EMPTY_DECL_UNWIND, timeout=600, quick_also=["C06"] if (lo, li, acts) in QR else [],
                            tier="quick" if (lo, li, acts) in QR else "thorough",
                            bounds="real Executable::run / Statement::execute / onRuntimeError over a list of 3 statements (the second with a chained successor); execution level 2; loops on the control stack started at levels %d and %d; script %s (per step s0 s1 s1b s2: 0 nothing 1 break 2 continue 3 return 4 raise)" % (lo, li, acts),
                            inputs="a return pending at entry"))
    return out
