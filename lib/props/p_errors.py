"""error handling kernels (C07)."""
from vxlib import Inst, CORE_TUS, FMT_STUBS, CTX_STUBS, CONTAINER_STUBS, EMPTY_DECL_UNWIND

TUS = [t for t in CORE_TUS if t != "blocc/executable.cpp"] + ["blocc/statement_begin.cpp"]
QUICK = {(1, 0), (2, 0), (3, 0), (5, 0), (0, 0), (1, 1), (3, 2), (4, 2), (1, 3), (1, 4), (2, 5)}

def instances():
    out = []
    for kind in range(6):
        for cl in range(6):
            out.append(Inst(id="c07.begin.k%d.c%d" % (kind, cl), props=["C07", "C15", "C14", "C01"], harness="h_c07.cpp", entry="c07_begin", tus=TUS,
                            defs=["VX_KIND=%d" % kind, "VX_CL=%d" % cl], stubs=FMT_STUBS + CTX_STUBS + CONTAINER_STUBS,
                            unwind=4, timeout=400, tier="quick", mem_gb=12,
                            bounds="raised kind and clause list are instance parameters (6 kinds x 6 clause lists of <= 2 clauses)",
                            inputs="whether the selected handler itself raises; whether the block is nested in another"))
    for lo, li in ((1, 1), (1, 2), (2, 2), (2, 3), (1, 3)):
        out.append(Inst(id="c07.run.l%d%d" % (lo, li), props=["C07", "C06", "C01"], harness="h_run.cpp", entry="c07_run", tus=CORE_TUS, defs=["VX_LO=%d" % lo, "VX_LI=%d" % li],
                        stubs=FMT_STUBS + CTX_STUBS + CONTAINER_STUBS, unwind=6, unwindset=EMPTY_DECL_UNWIND, timeout=600, quick_also=["C06"] if (lo, li) == (1, 2) else [],
                        tier="quick" if (lo, li) in ((1, 2), (2, 2), (1, 1)) else "thorough",
                        bounds="real Executable::run / Statement::execute / onRuntimeError over a list of 3 statements (one with a chained successor); execution level 2; two loops on the control stack started at levels %d and %d" % (lo, li),
                        inputs="per statement: nothing / break / continue / return / raise; a return pending at entry"))
    return out
