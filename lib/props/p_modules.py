"""module kernels (C18)."""
from vxlib import Inst
ROWS_Q = ["O|Q", "S", "Q", "OO|", "N|O", "QQ", "O", "|O", "SQ|O", "R"]
ROWS_T = ["OS|QO", "QS", "NQ", "O|O|O", "Q|Q", "OQO", "SN", "|Q|", "OO|OO"]
def instances():
    out = []
    for k, row in enumerate(ROWS_Q + ROWS_T):
        out.append(Inst(id="c18.csv.%d" % k, props=["C18", "C01"], harness="h_c18.cpp", entry="c18_csv", tus=["modules/csv/csvparser.cpp"], defs=['VX_ROW="%s"' % row],
                        unwind=12, timeout=3000, tier="thorough",
                        bounds="row class pattern %s (S separator, Q quote, N/R line breaks, O other byte; | separates fields)" % row, inputs="separator and quote characters, every O byte"))
    out.append(Inst(id="c18.csv.serialize", props=["C18", "C01"], harness="h_c18.cpp", entry="c18_csv_ser", tus=["modules/csv/csvparser.cpp"],
                    unwind=8, timeout=600, bounds="one field of <= 2 bytes", inputs="separator, quote, field bytes and length"))
    out.append(Inst(id="c18.utf8", props=["C18", "C01"], harness="h_c18.cpp", entry="c18_utf8", tus=["modules/utf8/utf8helper.cpp", "modules/utf8/utf8helper_charmap.cpp"],
                    unwind=6, timeout=900, bounds="string of 2 ASCII characters", inputs="position and count (int64, converted as the module does)"))
    return out
