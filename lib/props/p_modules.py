"""module kernels (C18)."""
from vxlib import Inst
ROWS_Q = ["O|Q", "S", "Q", "OO|", "N|O", "QQ", "O", "|O", "SQ|O", "R"]
ROWS_T = ["OS|QO", "QS", "NQ", "O|O|O", "Q|Q", "OQO", "SN", "|Q|", "OO|OO"]
import os, re
from vxlib import REPO, CORE_TUS, FMT_STUBS, CTX_STUBS, CONTAINER_STUBS, EMPTY_DECL_UNWIND
def utf8_methods():
    """method ids of the utf8 plugin, from the enum in the current source"""
    src = open(os.path.join(REPO, "modules/utf8/plugin_utf8.cpp")).read()
    m = re.search(r"enum Method\s*\{(.*?)\};", src, re.S)
    names = [x.split("=")[0].strip() for x in m.group(1).replace("\n", " ").split(",") if x.strip()]
    return {n: i for i, n in enumerate(names)}
NX = ["modules/csv/csvparser.cpp", "modules/utf8/plugin_utf8.cpp", "modules/utf8/utf8helper.cpp", "modules/utf8/utf8helper_charmap.cpp"]
def instances():
    out = []
    for k, row in enumerate(ROWS_Q + ROWS_T):
        out.append(Inst(id="c18.csv.%d" % k, props=["C18", "C01"], harness="h_c18.cpp", entry="c18_csv", tus=["modules/csv/csvparser.cpp"], native_extra=NX, defs=['VX_ROW="%s"' % row],
                        unwind=12, timeout=3000, tier="thorough",
                        bounds="row class pattern %s (S separator, Q quote, N/R line breaks, O other byte; | separates fields)" % row, inputs="separator and quote characters, every O byte"))
    out.append(Inst(id="c18.csv.serialize", props=["C18", "C01"], harness="h_c18.cpp", entry="c18_csv_ser", tus=["modules/csv/csvparser.cpp"], native_extra=NX,
                    unwind=8, timeout=600, bounds="one field of <= 2 bytes", inputs="separator, quote, field bytes and length"))
    M = utf8_methods()
    out.append(Inst(id="c18.utf8", props=["C18", "C01"], harness="h_c18.cpp", entry="c18_utf8", native_extra=NX, tus=CORE_TUS + ["blocc/plugin.cpp", "modules/utf8/plugin_utf8.cpp", "modules/utf8/utf8helper.cpp", "modules/utf8/utf8helper_charmap.cpp"],
                    defs=["VX_M_AT=%d" % M["At"], "VX_M_REMOVE=%d" % M["Remove"], "VX_M_SUBSTR2=%d" % M["Substr2"]], stubs=FMT_STUBS + CTX_STUBS + [x for x in CONTAINER_STUBS if "Complex" not in x],
                    unwind=6, unwindset=EMPTY_DECL_UNWIND, timeout=900, truncate_long=True, bounds="string of 2 ASCII characters", inputs="position and count (int64, converted as the module does)"))
    for n in (1, 2, 3, 4):
        out.append(Inst(id="c18.utf8.decode.%d" % n, props=["C18", "C01"], harness="h_c18.cpp", entry="c18_utf8_decode", native_extra=NX, tus=CORE_TUS + ["blocc/plugin.cpp", "modules/utf8/plugin_utf8.cpp", "modules/utf8/utf8helper.cpp", "modules/utf8/utf8helper_charmap.cpp"],
                        defs=["VX_N=%d" % n, "VX_M_AT=%d" % M["At"], "VX_M_REMOVE=%d" % M["Remove"], "VX_M_SUBSTR2=%d" % M["Substr2"]], stubs=FMT_STUBS + CTX_STUBS + [x for x in CONTAINER_STUBS if "Complex" not in x],
                        unwind=6, unwindset=EMPTY_DECL_UNWIND, timeout=900, truncate_long=True, tier="quick" if n in (2, 4) else "thorough",
                        bounds="every well-formed UTF-8 sequence of %d byte(s) (RFC 3629 table) pushed into an empty utf8 string" % n, inputs="the bytes"))
    return out
