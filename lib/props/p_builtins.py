"""builtin function and unary operator kernels through the generic n-ary harness (C01 C02 C03 C05 C10)."""
from vxlib import Inst, CORE_TUS, FMT_STUBS, CTX_STUBS, CONTAINER_STUBS, EMPTY_DECL_UNWIND

K = {"T": "K_TABI", "D": "K_TABD", "n": "K_NOTYPE", "b": "K_BOOLEAN", "i": "K_INTEGER", "d": "K_NUMERIC", "s": "K_LITERAL", "t": "K_TABCHAR"}
STUBS = FMT_STUBS + CTX_STUBS + CONTAINER_STUBS

def nary(name, cls, hdr, kinds, props, oracle="ORC_NONE", make=None, slen=2, tier="quick", timeout=240, tus=(), known=None, unwind=4, unwindset=(), short=True, idsuffix="", stubs=None, mutates=False):
    defs = ['VX_HDR="%s"' % hdr, "VX_MAKE=%s" % (make or ("new %s(std::move(args))" % cls)), "VX_NARGS=%d" % len(kinds), "VX_ORACLE=%s" % oracle, "VX_SLEN=%d" % slen]
    for k, c in enumerate(kinds):
        defs.append("VX_K%d=%s" % (k, K[c]))
    if known:
        defs.append("VX_KNOWN=%s" % known)
    if mutates:
        defs.append("VX_MUTATES0=1")
    if kinds[0] in "TD":
        defs.append("VX_LVAL0=1")
    return Inst(id="fn.%s.%s%s" % (name, kinds, idsuffix), props=props, harness="h_nary.cpp", entry="vx_nary", tus=CORE_TUS + list(tus), defs=defs,
                stubs=STUBS if stubs is None else stubs, unwind=unwind, unwindset=list(unwindset) + (EMPTY_DECL_UNWIND if kinds[0] in 'TD' else []), timeout=timeout, tier=tier, short_strings=short,
                bounds="argument kinds fixed per instance; strings / bytes of symbolic length <= %d with symbolic bytes; int64 / double payloads unbounded" % slen,
                inputs="per argument: payload, string bytes and length, null flag, lvalue flag")

def B(n):
    return ["blocc/builtin/builtin_%s.cpp" % n, "blocc/expression_builtin.cpp"]

def instances():
    out = []
    P10 = ["C10", "C01", "C02", "C05"]
    P03 = ["C03", "C01", "C02", "C05"]
    # unary operators
    out.append(nary("neg", "OpNEGExpression", "blocc/operator/op_neg.h", "i", P03, "ORC_NEG", make="new OpNEGExpression(e0)", tus=["blocc/operator/op_neg.cpp"],
                    known="verif_known(KF_INT_ADD_SUB_MUL_OVERFLOW_UB, !A[0].isnull && A[0].i == LONG_MIN)"))
    out.append(nary("neg", "OpNEGExpression", "blocc/operator/op_neg.h", "d", P03, "ORC_NEG", make="new OpNEGExpression(e0)", tus=["blocc/operator/op_neg.cpp"]))
    out.append(nary("neg", "OpNEGExpression", "blocc/operator/op_neg.h", "n", ["C01", "C05"], make="new OpNEGExpression(e0)", tus=["blocc/operator/op_neg.cpp"]))
    out.append(nary("not", "OpNOTExpression", "blocc/operator/op_not.h", "i", P03, "ORC_NOT", make="new OpNOTExpression(e0)", tus=["blocc/operator/op_not.cpp"]))
    out.append(nary("not", "OpNOTExpression", "blocc/operator/op_not.h", "n", ["C01", "C05"], make="new OpNOTExpression(e0)", tus=["blocc/operator/op_not.cpp"]))
    for k in "bn":
        out.append(nary("bnot", "OpBNOTExpression", "blocc/operator/op_bnot.h", k, ["C04", "C01", "C02", "C05"], "ORC_BNOT", make="new OpBNOTExpression(e0)", tus=["blocc/operator/op_bnot.cpp"]))
    # conversions and arithmetic builtins
    for k in "din":
        out.append(nary("int", "INTExpression", "blocc/builtin/builtin_int.h", k, P03 + ["C10"], "ORC_INT", tus=B("int"),
                        known="verif_known(KF_INT_OF_2POW63_OR_NAN, VX_K0 == K_NUMERIC && !A[0].isnull && (A[0].d != A[0].d || A[0].d == 9223372036854775808.0))"))
    out.append(nary("abs", "ABSExpression", "blocc/builtin/builtin_abs.h", "i", P03, "ORC_ABS", tus=B("abs"),
                    known="verif_known(KF_INT_ADD_SUB_MUL_OVERFLOW_UB, !A[0].isnull && A[0].i == LONG_MIN)"))
    out.append(nary("abs", "ABSExpression", "blocc/builtin/builtin_abs.h", "d", P03, tus=B("abs")))
    for k in "bidsn":
        out.append(nary("isnull", "ISNULLExpression", "blocc/builtin/builtin_isnull.h", k, ["C04", "C01", "C05"], "ORC_ISNULL", tus=B("isnull")))
    # string builtins
    out.append(nary("substr", "SUBSTRExpression", "blocc/builtin/builtin_substr.h", "sii", P10, "ORC_SUBSTR", slen=3, tus=B("substr")))
    out.append(nary("substr", "SUBSTRExpression", "blocc/builtin/builtin_substr.h", "si", P10, "ORC_SUBSTR", slen=3, tus=B("substr")))
    out.append(nary("substr", "SUBSTRExpression", "blocc/builtin/builtin_substr.h", "sdd", ["C10", "C01", "C05"], slen=2, tus=B("substr"), tier="thorough",
                    known="verif_known(KF_DECIMAL_ARGUMENT_TO_INTEGER_UNCHECKED, (!A[1].isnull && !(A[1].d >= -9223372036854775808.0 && A[1].d < 9223372036854775808.0)) || (!A[2].isnull && !(A[2].d >= -9223372036854775808.0 && A[2].d < 9223372036854775808.0)))"))
    out.append(nary("lsubstr", "LSUBSTRExpression", "blocc/builtin/builtin_lsubstr.h", "si", P10, "ORC_LSUB", slen=3, tus=B("lsubstr")))
    out.append(nary("rsubstr", "RSUBSTRExpression", "blocc/builtin/builtin_rsubstr.h", "si", P10, "ORC_RSUB", slen=3, tus=B("rsubstr")))
    out.append(nary("strlen", "STRLENExpression", "blocc/builtin/builtin_strlen.h", "s", P10, "ORC_STRLEN", slen=3, tus=B("strlen")))
    out.append(nary("upper", "UPPERExpression", "blocc/builtin/builtin_upper.h", "s", P10, "ORC_UPPER", slen=3, tus=B("upper")))
    out.append(nary("lower", "LOWERExpression", "blocc/builtin/builtin_lower.h", "s", P10, "ORC_LOWER", slen=3, tus=B("lower")))
    for n, c in (("trim", "TRIM"), ("ltrim", "LTRIM"), ("rtrim", "RTRIM")):
        out.append(nary(n, c + "Expression", "blocc/builtin/builtin_%s.h" % n, "s", P10, "ORC_TRIM", slen=3, tus=B(n)))
    out.append(nary("chr", "CHRExpression", "blocc/builtin/builtin_chr.h", "i", P10, "ORC_CHR", tus=B("chr"),
                    known="verif_known(KF_CHR_TYPED_NULL_DEREF, A[0].isnull); verif_known(KF_CHR_NO_RANGE_CHECK, !A[0].isnull && (A[0].i < 0 || A[0].i > 255))"))
    out.append(nary("strpos", "STRPOSExpression", "blocc/builtin/builtin_strpos.h", "ss", P10, slen=2, tus=B("strpos")))
    out.append(nary("hash", "HASHExpression", "blocc/builtin/builtin_hash.h", "si", P10, "ORC_HASH", slen=2, tus=B("hash"),
                    known="verif_known(KF_HASH_ZERO_BUCKETS, !A[1].isnull && (unsigned)A[1].i == 0u)"))
    out.append(nary("subraw", "SUBRAWExpression", "blocc/builtin/builtin_subraw.h", "tii", P10, slen=2, tus=B("subraw"), tier="thorough", timeout=900))
    # further builtins: safety (C01), static type (C02), frame condition (C05) - no value oracle
    GEN = [("mod", "MOD", ["ii", "id", "di", "dd", "in", "ni"]), ("sign", "SIGN", ["i", "d", "n"]), ("min", "MIN", ["ii", "id", "dd", "in"]), ("max", "MAX", ["ii", "di", "dd", "ni"]),
           ("floor", "FLOOR", ["d", "i", "n"]), ("ceil", "CEIL", ["d", "i", "n"]), ("round", "ROUND", ["d", "di", "dn"]), ("pow", "POW", ["ii", "dd", "id", "in"]),
           ("sqrt", "SQRT", ["d", "i", "n"]), ("clamp", "CLAMP", ["iii", "ddd", "idi"]), ("bool", "BOOL", ["b", "i", "d", "s", "n"]),
           ("str", "STR", ["i", "b", "s", "n"]), ("num", "NUM", ["s", "i", "d", "b", "n"]), ("isnum", "ISNUM", ["s", "i", "n"]), ("hex", "HEX", ["i", "ii", "n"]),
           ("raw", "RAW", ["i", "ii", "s", "n"]), ("replace", "REPLACE", ["sss"]), ("tokenize", "TOKENIZE", ["ss", "ssb"]), ("b64enc", "B64ENC", ["s", "t", "n"]),
           ("b64dec", "B64DEC", ["s", "n"]), ("typeof", "TYPEOF", ["i", "s", "n"]), ("strpos", "STRPOS", ["ssi"]), ("subraw", "SUBRAW", ["ti"]), ("hash", "HASH", ["s", "ti"])]
    QUICKGEN = {("mod", "ii"), ("sign", "i"), ("min", "ii"), ("max", "ii"), ("floor", "d"), ("round", "d"), ("bool", "i"), ("isnum", "s"), ("hex", "i"), ("typeof", "i"), ("clamp", "iii"), ("strpos", "ssi")}
    for n, c, kindlist in GEN:
        for kinds in kindlist:
            extra = ["blocc/builtin/base64.cpp"] if n.startswith("b64") else []
            out.append(nary(n, c + "Expression", "blocc/builtin/builtin_%s.h" % n, kinds, ["C01", "C02", "C05", "C10" if n in ("str", "num", "isnum", "hex", "raw", "replace", "tokenize", "b64enc", "b64dec", "strpos", "subraw", "hash") else "C03"],
                            tus=B(n) + extra, slen=2, tier="quick" if (n, kinds) in QUICKGEN else "thorough", timeout=600, idsuffix=".g",
                            unwindset=["_ZN4bloc13HEXExpression3hexB5cxx11Ell.0:20"] if n == "hex" else ["_ZNK4bloc13POWExpression5valueERNS_7ContextE.0:66"] if n == "pow" else ["_ZNSt8__detail14__to_chars_lenImEEjT_i.0:22", "_ZNSt8__detail18__to_chars_10_implImEEvPcjT_.0:22"] if n == "str" else [],
                            short=(n not in ("hex", "str")),
                            known=("verif_known(KF_HEX_WIDTH_OVERFLOW_UB, VX_NARGS > 1 && !A[1].isnull && A[1].i > LONG_MAX - 16)" if n == "hex" else
                                   "verif_known(KF_GENERIC_BUILTIN_TRIAGE, false)")))
    # isnum / num on strings long enough to hold a decimal outside the binary64 range ("1e999")
    for n, c in (("isnum", "ISNUM"), ("num", "NUM")):
        out.append(nary(n, c + "Expression", "blocc/builtin/builtin_%s.h" % n, "s", ["C10", "C01", "C05"], tus=B(n), slen=5, unwind=8, tier="quick" if n == "isnum" else "thorough", timeout=600, idsuffix=".s5"))
    # member methods (receiver = argument 0)
    P09 = ["C09", "C01", "C02", "C05"]
    TSTUBS = FMT_STUBS + CTX_STUBS + CONTAINER_STUBS[3:]          # tables are real here: Collection not cut
    def M(n):
        return ["blocc/member/member_%s.cpp" % n, "blocc/expression_member.cpp"]
    def mk(c):
        return "new %s(e0, std::move(margs))" % c
    for k in "st":
        out.append(nary("m_at", "MemberATExpression", "blocc/member/member_at.h", k + "i", P09, "ORC_AT", make=mk("MemberATExpression"), slen=3, tus=M("at")))
        out.append(nary("m_count", "MemberCOUNTExpression", "blocc/member/member_count.h", k, P09, "ORC_COUNT", make="new MemberCOUNTExpression(e0)", slen=3, tus=M("count")))
    out.append(nary("m_concat", "MemberCONCATExpression", "blocc/member/member_concat.h", "si", P09 + ["C10"], "ORC_CONCATC", make=mk("MemberCONCATExpression"), slen=2, tus=M("concat"), stubs=TSTUBS, mutates=True, timeout=600))
    out.append(nary("m_concat", "MemberCONCATExpression", "blocc/member/member_concat.h", "ss", P09, make=mk("MemberCONCATExpression"), slen=2, tus=M("concat"), stubs=TSTUBS, mutates=True, timeout=600))
    out.append(nary("m_at", "MemberATExpression", "blocc/member/member_at.h", "Ti", P09, "ORC_AT", make=mk("MemberATExpression"), tus=M("at"), stubs=TSTUBS, timeout=600))
    out.append(nary("m_count", "MemberCOUNTExpression", "blocc/member/member_count.h", "T", P09, "ORC_COUNT", make="new MemberCOUNTExpression(e0)", tus=M("count"), stubs=TSTUBS, timeout=3000, tier="thorough"))
    for k2 in "idn":
        out.append(nary("m_put", "MemberPUTExpression", "blocc/member/member_put.h", "Ti" + k2, P09, "ORC_PUT", make=mk("MemberPUTExpression"), tus=M("put"), stubs=TSTUBS, timeout=3000, mutates=True, tier="thorough"))
    out.append(nary("m_delete", "MemberDELETEExpression", "blocc/member/member_delete.h", "Ti", P09, "ORC_DELETE", make=mk("MemberDELETEExpression"), tus=M("delete"), stubs=TSTUBS, timeout=900, mutates=True, tier="thorough"))
    return out
