"""assignment / storage kernels (C05, C02)."""
from vxlib import Inst, CORE_TUS, FMT_STUBS, CTX_STUBS, CONTAINER_STUBS, EMPTY_DECL_UNWIND
K = {"n": "K_NOTYPE", "b": "K_BOOLEAN", "i": "K_INTEGER", "d": "K_NUMERIC", "s": "K_LITERAL", "T": "K_TABI"}
def instances():
    out = []
    for s in "nbids":
        for d in "nbids":
            quick = (s, d) in (("s", "s"), ("i", "i"), ("i", "s"), ("s", "n"), ("n", "s"), ("d", "i"), ("b", "b"), ("s", "i"))
            out.append(Inst(id="store.%s_to_%s" % (s, d), props=["C05", "C02", "C01"], harness="h_store.cpp", entry="c05_store", tus=CORE_TUS,
                            defs=["VX_SK=%s" % K[s], "VX_DK=%s" % K[d]], stubs=FMT_STUBS + CTX_STUBS + CONTAINER_STUBS, unwind=3, unwindset=EMPTY_DECL_UNWIND,
                            timeout=300, tier="quick" if quick else "thorough",
                            bounds="scalar kinds fixed per instance; strings <= 1 byte", inputs="null flags, payloads, source is a variable or a temporary, safety and lock flags of the destination"))
    for s, d in (("T", "i"), ("i", "T"), ("T", "T"), ("T", "s")):
        out.append(Inst(id="store.%s_to_%s" % (s, d), props=["C05", "C02", "C01"], harness="h_store.cpp", entry="c05_store", tus=CORE_TUS,
                        defs=["VX_SK=%s" % K[s], "VX_DK=%s" % K[d]], stubs=FMT_STUBS + CTX_STUBS + CONTAINER_STUBS, unwind=3, unwindset=EMPTY_DECL_UNWIND,
                        timeout=300, tier="quick" if (s, d) in (("T", "i"), ("i", "T")) else "thorough",
                        bounds="T = a (null) table of integers: same major type as an integer, one more dimension", inputs="null flags, payloads, source is a variable or a temporary, safety and lock flags of the destination"))
    for s, d in (("T", "i"), ("i", "s"), ("i", "T")):
        out.append(Inst(id="let.iterator.%s_into_%s" % (s, d), props=["C09", "C06", "C05", "C01"], harness="h_store.cpp", entry="c05_let_through_iterator", tus=CORE_TUS + ["blocc/statement_let.cpp", "blocc/expression_variable.cpp"],
                        defs=["VX_SK=%s" % K[s], "VX_DK=%s" % K[d]], stubs=FMT_STUBS + CTX_STUBS + CONTAINER_STUBS, unwind=3, unwindset=EMPTY_DECL_UNWIND, timeout=300,
                        quick_also=["C06", "C05"] if (s, d) == ("T", "i") else [], tier="quick" if (s, d) != ("i", "T") else "thorough",
                        bounds="element of kind %s, assigned value of kind %s (T = null table of integers)" % (d, s), inputs="values, null flags, lvalue flag of the source, lock flag"))
    for k in "is":
        out.append(Inst(id="let.iterator.%s" % k, props=["C05", "C17", "C09", "C06", "C01"], harness="h_store.cpp", entry="c05_let_through_iterator", tus=CORE_TUS + ["blocc/statement_let.cpp", "blocc/expression_variable.cpp"],
                        defs=["VX_SK=%s" % K[k], "VX_DK=%s" % K[k]], stubs=FMT_STUBS + CTX_STUBS + CONTAINER_STUBS, unwind=3, unwindset=EMPTY_DECL_UNWIND, timeout=300,
                        quick_also=["C17", "C09", "C06"], bounds="element / source of one scalar kind; strings <= 1 byte", inputs="values, null flags, lvalue flag of the source, lock flag"))
    return out
