"""save / load fidelity kernels (C12)."""
from vxlib import Inst, CORE_TUS, FMT_STUBS, CTX_STUBS, CONTAINER_STUBS, SCALAR_STUBS, EMPTY_DECL_UNWIND
OPS = [("add", "OpADDExpression", "OP_ADD"), ("sub", "OpSUBExpression", "OP_SUB"), ("mul", "OpMULExpression", "OP_MUL"), ("div", "OpDIVExpression", "OP_DIV"),
       ("mod", "OpMODExpression", "OP_MOD"), ("exp", "OpEXPExpression", "OP_EXP"), ("and", "OpANDExpression", "OP_AND"), ("ior", "OpIORExpression", "OP_IOR"),
       ("xor", "OpXORExpression", "OP_XOR"), ("pop", "OpPOPExpression", "OP_POP"), ("pus", "OpPUSExpression", "OP_PUS"), ("eq", "OpEQExpression", "OP_EQ"),
       ("ne", "OpNEExpression", "OP_NE"), ("lt", "OpLTExpression", "OP_LT"), ("le", "OpLEExpression", "OP_LE"), ("gt", "OpGTExpression", "OP_GT"), ("ge", "OpGEExpression", "OP_GE"),
       ("band", "OpBANDExpression", "OP_BAND"), ("bior", "OpBIORExpression", "OP_BIOR"), ("bxor", "OpBXORExpression", "OP_BXOR")]
def instances():
    out = []
    for name, cls, opid in OPS:
        out.append(Inst(id="c12.unparse.%s" % name, props=["C12"], harness="h_binop.cpp", entry="vx_unparse", tus=CORE_TUS + ["blocc/operator/op_%s.cpp" % name, "blocc/operator.cpp"],
                        defs=["VX_OP=%s" % cls, 'VX_OPH="blocc/operator/op_%s.h"' % name, "VX_A=K_INTEGER", "VX_B=K_INTEGER", "VX_OPID=Operator::%s" % opid],
                        stubs=SCALAR_STUBS, unwind=3, timeout=300, bounds="operand texts fixed (\"x\", \"yz\")", inputs="parenthesis flag"))
    for name, cls, opid in (("neg", "OpNEGExpression", "OP_NEG"), ("pos", "OpPOSExpression", "OP_POS"), ("not", "OpNOTExpression", "OP_NOT"), ("bnot", "OpBNOTExpression", "OP_BNOT")):
        out.append(Inst(id="c12.unparse.%s" % name, props=["C12"], harness="h_binop.cpp", entry="vx_unparse", tus=CORE_TUS + ["blocc/operator/op_%s.cpp" % name, "blocc/operator.cpp"],
                        defs=["VX_OP=%s" % cls, 'VX_OPH="blocc/operator/op_%s.h"' % name, "VX_A=K_INTEGER", "VX_B=K_INTEGER", "VX_OPID=Operator::%s" % opid, "VX_UNARY=1"],
                        stubs=SCALAR_STUBS, unwind=3, timeout=300, bounds="operand text fixed (\"x\")", inputs="parenthesis flag"))
    for pat in ("", "P", "E", "PP", "PE", "EP", "EE", "PPP", "PEP", "EEE", "EPE"):
        out.append(Inst(id="c12.literal.%s" % (pat or "empty"), props=["C12", "C10"], harness="h_c12.cpp", entry="c12_literal", tus=["blocc/value.cpp", "blocc/exception_runtime.cpp"],
                        defs=['VX_PAT="%s"' % pat], stubs=FMT_STUBS + CONTAINER_STUBS + ["_ZN4bloc5Value6_clearEv"][:0], unwind=len(pat) * 2 + 4, timeout=600, tier="quick" if len(pat) <= 2 else "thorough",
                        bounds="strings of %d bytes with escape pattern %s (P plain, E one of the 8 escaped characters)" % (len(pat), pat or "-"), inputs="the bytes"))
    for n in (1, 2, 3, 4, 5):
        out.append(Inst(id="c10.b64.%d" % n, props=["C10", "C01"], harness="h_b64.cpp", entry="c10_b64", tus=["blocc/builtin/base64.cpp"], defs=["VX_LEN=%d" % n],
                        unwind=8, timeout=600, tier="quick" if n <= 3 else "thorough", bounds="every byte string of %d bytes" % n, inputs="the bytes"))
    SH = ["D", "DD", "D.D", "DeSXX", "D.DeSXX", "DeSXXX", "D.DDeSXX"]
    for k, sh in enumerate(SH):
        out.append(Inst(id="c12.numconst.%d" % k, props=["C12", "C01"], harness="h_c12num.cpp", entry="c12_numconst", tus=CORE_TUS + ["blocc/expression_numeric.cpp"],
                        defs=["VX_SHAPE=%d" % k], stubs=FMT_STUBS + ["_ZN4bloc5Value15readableNumericB5cxx11ERd"], unwind=18, timeout=300,
                        bounds="NumericExpression::unparse with the %%.16g rendering cut: every text of shape %s (D digit, S sign, X exponent digit) that %%.16g can print, leading digit 1..4" % sh,
                        inputs="digits, exponent sign"))
    HT = CORE_TUS + ["blocc/statement_for.cpp", "blocc/statement_forall.cpp", "blocc/expression_variable.cpp"]
    for fa in (0, 1):
        for d in (0, 1, 2):
            for st in ((0, 1) if not fa else (0,)):
                out.append(Inst(id="c12.header.%s.d%d%s" % ("forall" if fa else "for", d, ".step" if st else ""), props=["C12", "C01"], harness="h_unparse.cpp", entry="c12_header", tus=HT,
                                defs=["VX_FORALL=%d" % fa, "VX_DIR=%d" % d, "VX_STEP=%d" % st], stubs=FMT_STUBS + CTX_STUBS + CONTAINER_STUBS, unwind=42, unwindset=EMPTY_DECL_UNWIND, timeout=300, model_unwind=50,
                                tier="quick" if (fa, d, st) in ((0, 1, 0), (0, 2, 1), (0, 0, 0), (1, 2, 0)) else "thorough",
                                bounds="%s header with direction %s%s; names are one character; empty body" % ("forall" if fa else "for", ("none", "asc", "desc")[d], ", with a step" if st else ""),
                                inputs="none (the written text is compared with the grammar; the check is a reachability + equality query)"))
    return out
