"""operator node kernels (C01 C02 C03 C04 C05)."""
from vxlib import Inst, CORE_TUS

K = {"n": "K_NOTYPE", "b": "K_BOOLEAN", "i": "K_INTEGER", "d": "K_NUMERIC"}
ARITH = [("add", "OpADDExpression", "ORC_ADD"), ("sub", "OpSUBExpression", "ORC_SUB"), ("mul", "OpMULExpression", "ORC_MUL"),
         ("div", "OpDIVExpression", "ORC_DIV"), ("mod", "OpMODExpression", "ORC_MOD")]
BITW = [("and", "OpANDExpression", "ORC_AND"), ("ior", "OpIORExpression", "ORC_IOR"), ("xor", "OpXORExpression", "ORC_XOR"),
        ("pop", "OpPOPExpression", "ORC_SHL"), ("pus", "OpPUSExpression", "ORC_SHR")]
LOGIC = [("band", "OpBANDExpression", "ORC_BAND"), ("bior", "OpBIORExpression", "ORC_BIOR"), ("bxor", "OpBXORExpression", "ORC_BXOR")]
REL = [("eq", "OpEQExpression", "ORC_EQ"), ("ne", "OpNEExpression", "ORC_NE"), ("lt", "OpLTExpression", "ORC_LT"),
       ("le", "OpLEExpression", "ORC_LE"), ("gt", "OpGTExpression", "ORC_GT"), ("ge", "OpGEExpression", "ORC_GE")]
from vxlib import SCALAR_STUBS as STUBS

def binop(name, cls, orc, a, b, props, tier="quick", timeout=600, backends=("z3", "sat"), novalue=False):
    return Inst(id="op.%s.%s%s%s" % (name, a, b, ".nv" if novalue else ""), props=props, harness="h_binop.cpp", entry="vx_binop",
                tus=CORE_TUS + ["blocc/operator/op_%s.cpp" % name],
                defs=["VX_OP=%s" % cls, 'VX_OPH="blocc/operator/op_%s.h"' % name, "VX_A=%s" % K[a], "VX_B=%s" % K[b], "VX_ORACLE=%s" % orc] + (["VX_NOVALUE=1"] if novalue else []),
                stubs=STUBS, unwind=3, timeout=timeout, tier=tier, backends=backends,
                bounds="none on payloads (full int64 / binary64); operand major types fixed per instance",
                inputs="payload a,b (int64/double/bool), null flag a,b, lvalue flag a,b")

def instances():
    out = []
    for name, cls, orc in ARITH:
        for a, b in (("i", "i"), ("i", "d"), ("d", "i"), ("d", "d")):
            if (a, b) == ("i", "i"):
                out.append(binop(name, cls, orc, a, b, ["C03", "C01", "C02", "C05"]))
            else:
                # decimal cells: everything except the bit-exact value in the quick tier, the value (heavy float reasoning) in the thorough tier
                out.append(binop(name, cls, orc, a, b, ["C03", "C01", "C02", "C05"], novalue=True))
                out.append(binop(name, cls, orc, a, b, ["C03", "C01", "C02", "C05"], tier="thorough", timeout=1200))
        for a, b in (("n", "i"), ("i", "n"), ("n", "n"), ("n", "d")):
            out.append(binop(name, cls, "ORC_NONE", a, b, ["C01", "C05"], tier="thorough"))
    e = binop("exp", "OpEXPExpression", "ORC_EXP", "i", "i", ["C03", "C01", "C02", "C05"], timeout=600)
    e.id = "op.exp.ii.neg"; e.defs = e.defs + ["VX_B_NEGATIVE=1"]
    e.bounds = "all int64 bases, every negative exponent"
    out.append(e)
    for n in (0, 1, 2, 3, 5, 8, 13, 63, 64, 4294967296, 4294967299, 9223372036854775807):
        e = binop("exp", "OpEXPExpression", "ORC_EXP", "i", "i", ["C03", "C01", "C02", "C05"], timeout=600, tier="quick" if n in (0, 3, 13, 64, 4294967299) else "thorough")
        e.id = "op.exp.ii.e%s" % str(n).replace("-", "m")
        e.defs = e.defs + ["VX_FIX_B_I=%dL" % n] + (["VX_FIX_A_I=3L"] if n > 64 else [])
        e.unwindset = ["_ZNK4bloc15OpEXPExpression5valueERNS_7ContextE.0:%d" % (max(9, n.bit_length() + 2))]
        e.unwind = 66
        e.bounds = ("all int64 bases, exponent %d (instance parameter); value compared with the %d-fold product mod 2^64" % (n, n)) if n <= 64 else ("base 3, exponent %d: the whole 64-bit exponent is used (with a symbolic base the equivalence of two 34-deep multiplication chains is beyond both back ends)" % n)
        out.append(e)
    e = binop("exp", "OpEXPExpression", "ORC_EXP", "i", "i", ["C03", "C01", "C02", "C05"], timeout=3600, tier="thorough")
    e.id = "op.exp.ii.full"
    e.unwindset = ["_ZNK4bloc15OpEXPExpression5valueERNS_7ContextE.0:66"]
    e.bounds = "all int64 bases and exponents (64 rounds of square-and-multiply unwound); value asserted on algebraic anchor points"
    out.append(e)
    for name, cls, orc in BITW:
        out.append(binop(name, cls, orc, "i", "i", ["C03", "C01", "C02", "C05"]))
        for a, b in (("n", "i"), ("i", "n"), ("n", "n")):
            out.append(binop(name, cls, "ORC_NONE", a, b, ["C01", "C05"], tier="thorough"))
    for name, cls, orc in LOGIC:
        for a in "bn":
            for b in "bn":
                out.append(binop(name, cls, orc, a, b, ["C04", "C01", "C02", "C05"]))
    for name, cls, orc in REL:
        for a, b in (("b", "b"), ("i", "i"), ("i", "d"), ("d", "i"), ("d", "d"), ("n", "n"), ("n", "i"), ("i", "n"), ("b", "n"), ("n", "d")):
            out.append(binop(name, cls, orc, a, b, ["C04", "C01", "C02", "C05"], tier="quick" if (a, b) in (("b", "b"), ("i", "i"), ("n", "n"), ("n", "i"), ("b", "n")) else "thorough"))
    for name, cls, orc in LOGIC + REL[:2]:
        for cn, cname in ((0, "null"), (1, "true"), (2, "false")):
            for b in "bn":
                for first in (1, 0):
                    quick = name in ("bior", "band", "eq") and b == "b" and (first == 1 or cn == 0)
                    i = binop(name, cls, orc, "b", b, ["C04", "C05", "C01"], tier="quick" if quick else "thorough")
                    i.id = "op.const.%s.%s.%s.%s" % (name, cname, b, "cx" if first else "xc"); i.entry = "vx_constnode"; i.defs = i.defs + ["VX_CONSTNODE=%d" % cn] + (["VX_CFIRST=1"] if first else [])
                    i.bounds = "operator over the real %s constant node (%s operand) and a symbolic boolean / null variable, evaluated twice" % (cname, "first" if first else "second")
                    out.append(i)
    return out
