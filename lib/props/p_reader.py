"""reader kernels (C13-K1)."""
from vxlib import Inst
def instances():
    return [Inst(id="c13.stringreader.%d" % n, props=["C13", "C01"], harness="h_reader.cpp", entry="c13_string_reader", tus=["blocc/string_reader.cpp"], defs=["VX_TLEN=%d" % n],
                 unwind=n + 4, timeout=600, tier="quick" if n <= 3 else "thorough", bounds="text of %d symbolic bytes, max_size 1..3" % n, inputs="text bytes, max_size") for n in (2, 3, 4)]
