"""reader kernels (C13-K1)."""
from vxlib import Inst, CORE_TUS, FMT_STUBS, CTX_STUBS, CONTAINER_STUBS
def instances():
    extra = []
    for n in (3, 4):
        extra.append(Inst(id="c13.readfile.%d" % n, props=["C13", "C19", "C01"], harness="h_readfile.cpp", entry="c13_read_file", tus=["apps/read_file.cpp"], defs=["VX_TLEN=%d" % n, "VX_WHICH=0"],
                          unwind=n + 5, timeout=600, tier="quick" if n <= 3 else "thorough", bounds="file of %d symbolic bytes, max_size 1..3" % n, inputs="file bytes, max_size", quick_also=["C19"]))
    extra.append(Inst(id="c13.readfile.include.3", props=["C13", "C01"], harness="h_readfile.cpp", entry="c13_read_file", tus=[t for t in CORE_TUS], defs=["VX_TLEN=3", "VX_WHICH=1"],
                      stubs=FMT_STUBS + CTX_STUBS + CONTAINER_STUBS + ["_ZN4bloc16INCLUDEStatement10loadSourceERNS_6ParserERNS_7ContextE", "_ZN4bloc16INCLUDEStatement5parseERNS_6ParserERNS_7ContextE", "_ZNK4bloc16INCLUDEStatement4doitERNS_7ContextE"],
                      unwind=8, timeout=600, bounds="file of 3 symbolic bytes through the reader copy of statement_include.cpp", inputs="file bytes, max_size"))
    return extra + [Inst(id="c13.stringreader.%d" % n, props=["C13", "C01"], harness="h_reader.cpp", entry="c13_string_reader", tus=["blocc/string_reader.cpp"], defs=["VX_TLEN=%d" % n],
                 unwind=n + 4, timeout=600, tier="quick" if n <= 3 else "thorough", bounds="text of %d symbolic bytes, max_size 1..3" % n, inputs="text bytes, max_size") for n in (2, 3, 4)]
