"""user-function kernels (C08) and function rollback (C11)."""
from vxlib import Inst, CORE_TUS, FMT_STUBS, CTX_STUBS, CONTAINER_STUBS, EMPTY_DECL_UNWIND

TUS = CORE_TUS + ["blocc/expression_variable.cpp"]

def instances():
    out = []
    out.append(Inst(id="c08.k1", props=["C08", "C01"], harness="h_c08.cpp", entry="c08_k1", tus=TUS, stubs=FMT_STUBS + CTX_STUBS + CONTAINER_STUBS,
                    unwind=3, timeout=300, bounds="one call from an arbitrary cached context (inductive step over call histories); 1 parameter, 1 local; values int64",
                    inputs="left-over parameter and local values, left-over return flag, whether the local was ever set, argument value, caller depth"))
    out.append(Inst(id="c08.k2", props=["C08", "C01"], harness="h_c08.cpp", entry="c08_k2", tus=TUS, stubs=FMT_STUBS + CTX_STUBS + CONTAINER_STUBS,
                    unwind=3, timeout=300, bounds="all 256 caller depths", inputs="caller recursion depth (uint8)"))
    for r in (0, 1, 2):
        out.append(Inst(id="c11.rollback.r%d" % r, props=["C11"], harness="h_c11.cpp", entry="c11_rollback", tus=TUS, defs=["VX_REDEF=%d" % r],
                        stubs=FMT_STUBS + ["_ZN4bloc7ContextD0Ev", "_ZN4bloc7ContextD2Ev"] + CONTAINER_STUBS, unwind=4, timeout=300,
                        bounds="2 declared functions; the (re)defined one is an instance parameter (first / last / new)", inputs="presence of a stale backup"))
    for r in (0, 2):
        out.append(Inst(id="c11.rollback.later.r%d" % r, props=["C11"], harness="h_c11.cpp", entry="c11_rollback", tus=TUS, defs=["VX_REDEF=%d" % r, "VX_LATER=1"],
                        stubs=FMT_STUBS + ["_ZN4bloc7ContextD0Ev", "_ZN4bloc7ContextD2Ev"] + CONTAINER_STUBS, unwind=4, unwindset=EMPTY_DECL_UNWIND, timeout=300,
                        bounds="2 declared functions; the text (re)defines the first one / a new one successfully and is rejected by a later statement", inputs="presence of a stale backup"))
    for st in (2, 3):
        out.append(Inst(id="c11.parsingend.s%d" % st, props=["C11", "C02"], harness="h_c11.cpp", entry="c11_parsing_end", tus=TUS, defs=["VX_STEPS=%d" % st],
                        stubs=FMT_STUBS + CTX_STUBS + CONTAINER_STUBS, unwind=st + 2, unwindset=EMPTY_DECL_UNWIND, timeout=600,
                        bounds="2 variables, %d re-typings by the abandoned text (any interleaving), scalar types" % st,
                        inputs="initial types, per re-typing: which variable, new type"))
    for st in ():
        out.append(Inst(id="c11.symbols.s%d" % st, props=["C11", "C02"], harness="h_c11.cpp", entry="c11_symbols", tus=TUS, defs=["VX_STEPS=%d" % st],
                        stubs=FMT_STUBS + CTX_STUBS + CONTAINER_STUBS, unwind=4, unwindset=EMPTY_DECL_UNWIND, timeout=600, tier="quick" if st == 2 else "thorough",
                        bounds="2 existing variables + 1 new name, %d registerSymbol calls, scalar types" % st,
                        inputs="initial types and safety flag, per call: which name, which type"))
    CL_TUS = [t for t in CORE_TUS if t != "blocc/executable.cpp"] + ["blocc/statement_forall.cpp", "blocc/statement_for.cpp", "blocc/expression_variable.cpp"]
    for loop, ln in ((0, "for"), (1, "forall.var"), (2, "forall.tmp")):
        for sc in ("F", "SF", "E", "Z", "XE", "SXE", "XFE", "XZ"):
            out.append(Inst(id="c11.clause.%s.%s" % (ln, sc), props=["C11", "C06", "C01"], harness="h_clause.cpp", entry="c11_clause", tus=CL_TUS,
                            defs=["VX_LOOP=%d" % loop, 'VX_SCRIPT="%s"' % sc], stubs=FMT_STUBS + CTX_STUBS + CONTAINER_STUBS, unwind=len(sc) + 2, timeout=600,
                            tier="quick" if sc in ("F", "Z") else "experimental" if ("X" in sc or sc == "E") else "thorough",
                            bounds="parse_clause of %s with the body script %s (S separator, X statement, F failing statement, E END, Z end of text)" % (ln, sc),
                            inputs="flags of the iterator and table symbols before"))
    return out
