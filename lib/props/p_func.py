"""user-function kernels (C08) and function rollback (C11)."""
from vxlib import Inst, CORE_TUS, FMT_STUBS, CTX_STUBS, CONTAINER_STUBS

TUS = CORE_TUS + ["blocc/expression_variable.cpp"]

def instances():
    out = []
    out.append(Inst(id="c08.k1", props=["C08", "C01"], harness="h_c08.cpp", entry="c08_k1", tus=TUS, stubs=FMT_STUBS + CTX_STUBS + CONTAINER_STUBS,
                    unwind=3, timeout=300, bounds="one call from an arbitrary cached context (inductive step over call histories); 1 parameter, 1 local; values int64",
                    inputs="left-over parameter and local values, left-over return flag, whether the local was ever set, argument value, caller depth"))
    out.append(Inst(id="c08.k2", props=["C08", "C01"], harness="h_c08.cpp", entry="c08_k2", tus=TUS, stubs=FMT_STUBS + CTX_STUBS + CONTAINER_STUBS,
                    unwind=3, timeout=300, bounds="all 256 caller depths", inputs="caller recursion depth (uint8)"))
    for r in (0, 1, 2):
        out.append(Inst(id="c11.rollback.r%d" % r, props=["C11"], harness="h_c11.cpp", entry="c11_rollback", tus=TUS, defs=["VX_REDEF=%d" % r],
                        stubs=FMT_STUBS + ["_ZN4bloc7ContextD0Ev", "_ZN4bloc7ContextD2Ev"] + CONTAINER_STUBS, unwind=4, timeout=300,
                        bounds="2 declared functions; the (re)defined one is an instance parameter (first / last / new)", inputs="presence of a stale backup"))
    return out
