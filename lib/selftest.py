"""./vx selftest - differential validation of translator + runtime model.
For a set of harness instances the generated C (tools/ir2c output) and the C model are compiled NATIVELY with gcc
(model/native shim turns the CPROVER primitives into ordinary code) and run on concrete input vectors (boundary
lattice + pseudo-random, seeded); the same harness is compiled as C++ against the real sources and libstdc++ and run
on the same vectors. The set of failed assertion labels must be identical. A disagreement means the encoding is wrong."""
import json, os, random, re, subprocess, sys, glob, shutil
import vxlib as V
import check as CK
import replay as R

DEFAULT = ["op.add.ii", "op.div.ii", "op.mod.ii", "op.pus.ii", "op.pop.ii", "op.bior.bb", "op.band.bb", "op.lt.ii", "op.mul.dd.nv", "op.div.id.nv",
           "fn.substr.sii", "fn.chr.i", "fn.int.d", "fn.upper.s", "fn.rtrim.s", "fn.strpos.ss", "fn.hash.si", "fn.neg.i", "fn.m_at.si",
           "c06.for.step", "c06.for.first.auto", "c12.literal.PE", "c12.literal.EE", "store.s_to_s", "c09.tupleid.1_2"]

LONGS = [0, 1, 2, 3, 5, 63, 64, 65, 255, 256, 2**31 - 1, 2**31, 2**32, 2**32 + 1, 2**62, 2**63 - 1, 2**63, 2**63 + 1, 2**64 - 1, 2**64 - 2, 2**64 - 64, 2**64 - 255, 2**64 - 256]
DBLS = [0.0, -0.0, 1.0, -1.0, 0.5, 2.5, 1e300, -1e300, 4.9e-324, 9.223372036854775807e18, -9.223372036854775808e18, float("inf"), float("-inf"), float("nan"), 255.0, 256.0, 1e-310]

def dbits(d):
    import struct
    return struct.unpack("<Q", struct.pack("<d", d))[0]

def vectors(rng, n):
    for _ in range(n):
        v = {}
        for k in range(12):
            v["long%d" % k] = rng.choice(LONGS) if rng.random() < 0.7 else rng.getrandbits(64)
            v["double%d" % k] = dbits(rng.choice(DBLS)) if rng.random() < 0.7 else rng.getrandbits(64)
            v["int%d" % k] = rng.choice([0, 1, 2, 3, 4, 5]) if rng.random() < 0.9 else rng.getrandbits(31)
        for k in range(24):
            v["bool%d" % k] = rng.getrandbits(1)
            v["uchar%d" % k] = rng.choice([0, 9, 10, 13, 32, 34, 35, 44, 45, 48, 65, 92, 97, 122, 127, 128, 255]) if rng.random() < 0.6 else rng.getrandbits(8)
        yield v

def run(exe, inp):
    env = dict(os.environ, VX_INPUTS=inp, ASAN_OPTIONS="detect_leaks=0", UBSAN_OPTIONS="halt_on_error=0")
    try:
        p = subprocess.run([exe], env=env, stdout=subprocess.PIPE, stderr=subprocess.PIPE, text=True, errors="replace", timeout=20)
    except subprocess.TimeoutExpired:
        return ("TIMEOUT",)
    if "VX-ASSUME-VIOLATED" in p.stdout:
        return ("ASSUME",)
    fails = sorted(set(l[len("VX-ASSERT-FAILED: "):] for l in p.stdout.splitlines() if l.startswith("VX-ASSERT-FAILED: ")))
    # translator / CBMC-only assertions have no C++ counterpart
    fails = [f for f in fails if not f.startswith("UB:") and "unreachable" not in f and "model bound" not in f and "unmodelled" not in f and "indirect call" not in f]
    return tuple(fails) if p.returncode in (0,) or fails else ("CRASH rc=%d" % p.returncode,)

def main():
    only = sys.argv[2:] or DEFAULT
    seed = int(os.environ.get("VERIF_SEED", "1") or 1)
    nvec = int(os.environ.get("VX_SELFTEST_N", "150"))
    findings = V.load_known(); kfdir = V.kf_header(findings)
    insts = {i.id: i for i in CK.load_instances()}
    rundir = os.path.join(V.OUT, "run", "selftest-%d" % os.getpid()); os.makedirs(rundir, exist_ok=True)
    nd = R.native_objects()
    total = agree = skipped = 0; bad = []
    for iid in only:
        inst = insts[iid]; wd = os.path.join(rundir, iid)
        try:
            objs, gen = V.build_instance(inst, kfdir, wd)
        except V.BuildError as e:
            print("selftest %-28s BUILD FAILED %s" % (iid, str(e)[-200:])); bad.append(iid); continue
        mainc = os.path.join(wd, "nmain.c")
        open(mainc, "w").write("#include <stdio.h>\nint vx_kf_mode[256]; void __vx_global_ctors(void); void %s(void);\nint main(void){ setvbuf(stdout,0,_IONBF,0); __vx_global_ctors(); %s(); printf(\"VX-DONE\\n\"); return 0; }\n" % (inst.entry, inst.entry))
        genn = os.path.join(wd, "gen_native.c")
        src = open(gen).read().replace('#include "vx_runtime.h"', '#include "vx_runtime.h"\n#include "native/cprover_shim.h"')
        src = re.sub(r"^int vx_kf_mode\[256\];.*$", "", src, flags=re.M)
        src = re.sub(r"^(extern )?uint8_t (__dso_handle|__libc_single_threaded);\s*$", r"extern uint8_t \2;", src, flags=re.M)
        open(genn, "w").write(src)
        a = os.path.join(wd, "a_gen")
        modes = (["-DVX_TRUNC", "-DVX_SHORT_ONLY"] if inst.truncate_long else ["-DVX_SHORT_ONLY"] if inst.short_strings else [])
        model_src = open(V.MODEL_C).read().replace("int vx_kf_mode[256];", "extern int vx_kf_mode[256];").replace("uint8_t __dso_handle = 0;", "").replace("uint8_t __libc_single_threaded = 1;", "")
        modn = os.path.join(wd, "model_native.c"); open(modn, "w").write(model_src)
        r = V.sh(["gcc", "-w", "-O0", "-g", "-fno-builtin", "-DVX_NATIVE_SELFTEST", "-I" + V.MODEL_DIR, "-I" + kfdir] + modes + [genn, modn, os.path.join(V.MODEL_DIR, "native", "shim.c"), mainc, "-lm", "-o", a])
        if r.returncode != 0:
            print("selftest %-28s native build of generated C failed: %s" % (iid, r.stdout[-600:])); bad.append(iid); continue
        b = os.path.join(wd, "b_cpp")
        r = V.sh(["g++"] + R.native_flags() + ["-I" + kfdir] + ["-D" + x for x in inst.defs] + ["-DVX_ENTRY=" + inst.entry, os.path.join(V.HARNESS_DIR, inst.harness), os.path.join(V.HARNESS_DIR, "vx_native.cpp")] +
                 sorted(glob.glob(os.path.join(nd, "*.o"))) + ["-Wl,--allow-multiple-definition", "-ldl", "-lpthread", "-lm", "-o", b])
        if r.returncode != 0:
            print("selftest %-28s native C++ build failed: %s" % (iid, r.stdout[-600:])); bad.append(iid); continue
        rng = random.Random(seed * 1000003 + hash(iid) % 1000)
        n_ok = n_skip = 0; first = None
        for k, v in enumerate(vectors(rng, nvec)):
            inp = os.path.join(wd, "in.txt")
            with open(inp, "w") as f:
                for key, val in v.items():
                    f.write("%s %d\n" % (key, val))
            ra, rb = run(a, inp), run(b, inp)
            if ra == ("ASSUME",) or rb == ("ASSUME",):
                if ra != rb and first is None:
                    first = (v, ra, rb)
                n_skip += 1 if ra == rb else 0
                continue
            total += 1
            if ra == rb:
                n_ok += 1; agree += 1
            elif first is None:
                first = ({k2: v[k2] for k2 in sorted(v)[:40]}, ra, rb)
        skipped += n_skip
        status = "ok" if first is None else "DISAGREE"
        print("selftest %-28s %s: %d vectors compared identical, %d outside the harness assumptions%s" % (iid, status, n_ok, n_skip, "" if first is None else "  first difference: generated C %s vs C++ %s" % (first[1], first[2])))
        if first is not None:
            bad.append(iid)
            json.dump(dict(instance=iid, inputs=first[0], generated_c=first[1], cpp=first[2]), open(os.path.join(V.OUT, "selftest-%s.json" % iid.replace("/", "_")), "w"), indent=1)
        else:
            shutil.rmtree(wd, ignore_errors=True)
    R.cleanup()
    print("selftest: %d instances, %d comparisons, %d agree, %d instances with differences/errors: %s" % (len(only), total, agree, len(bad), bad))
    return 1 if bad else 0
