"""non-IR solver checks attached to properties (direct automaton / SMT queries)."""
import c13
EXTRA = {"C13": [c13.check]}
