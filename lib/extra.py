"""non-IR solver checks attached to properties (direct automaton / SMT queries)."""
import c13, c12num
EXTRA = {"C13": [c13.check], "C12": [c12num.check]}
