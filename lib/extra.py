"""non-CBMC solver checks (direct SMT queries) attached to properties."""
EXTRA = {}
