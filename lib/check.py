"""check orchestration: run all instances of a property, apply known findings, replay, write evidence."""
import json, os, re, shutil, sys, time, fnmatch, importlib, traceback, atexit
from concurrent.futures import ThreadPoolExecutor, as_completed
import vxlib as V
import replay as R

# kernels whose symbolic execution / solving does not finish within 15 minutes on 16 cores (measured by the capped sweep,
# out/sweep.sh): kept as `experimental` - built and listed, part of no registered command (DESIGN.md section 7)
NOT_FINISHING = re.compile(r"^(fn\.subraw\.tii|fn\.(pow\.ii|subraw\.ti|replace\.sss|tokenize\.ssb?)\.g|fn\.m_count\.T|fn\.m_put\.Ti[idn]|fn\.m_delete\.Ti|"
                           r"c19\.main\.args2|c06\.forall\.run\.(auto|desc)|c18\.csv\.\d+|c16\.ctor\.full\.\d+|c14\.clone|op\.exp\.ii\.full|op\.(add|sub|mul|div)\.(id|di))$")

def load_instances():
    insts = []
    pdir = os.path.join(V.VERIF, "lib", "props")
    sys.path.insert(0, pdir)
    for f in sorted(os.listdir(pdir)):
        if f.endswith(".py") and not f.startswith("_"):
            m = importlib.import_module(f[:-3])
            insts += m.instances()
    ids = set()
    for i in insts:
        assert i.id not in ids, "duplicate instance id " + i.id
        ids.add(i.id)
        if NOT_FINISHING.match(i.id):
            i.tier = "experimental"
    return insts

def default_quick_also(i):
    """secondary properties for which an instance is also part of the quick tier (kept small: the umbrella
    properties C01 / C02 / C05 would otherwise re-run every kernel of the framework on every change)"""
    n = i.id
    if n == "fn.strpos.ssi.g": return ["C10", "C05"]
    if n.endswith(".g"): return [p for p in i.props[1:] if p in ("C10", "C03")]      # generic builtin instances: also under the value property of their builtin
    if re.match(r"op\.(add|sub|mul|div|mod|and|ior|xor|pop|pus)\.ii$", n): return ["C01", "C02", "C05"]
    if re.match(r"op\.(div|mul)\.(id|di)\.nv$", n): return ["C01", "C02"]
    if re.match(r"op\.(band|bior|bxor)\.bb$", n) or re.match(r"op\.(eq|lt)\.(ii|bb)$", n): return ["C01", "C02", "C05"]
    if re.match(r"fn\.(substr\.sii|substr\.si|chr\.i|hash\.si|int\.d|rtrim\.s|trim\.s|upper\.s|strpos\.ss|neg\.i|m_at\.Ti|m_at\.si)$", n): return ["C01", "C02", "C05", "C03", "C10", "C09"]
    if n.startswith("fn.m_concat") or n.startswith("fn.m_count.s") or n.startswith("let.iterator"): return ["C05", "C01"]
    if n.startswith("capi.accessors"): return ["C01"]
    if n.startswith("store."): return ["C02", "C01"]
    if n.startswith("c07.begin.k1.c0") or n.startswith("c07.begin.k3.c2"): return ["C15", "C01", "C14", "C06"]
    if n.startswith("c07.begin.k1") or n.startswith("c07.begin.k3") or n.startswith("c07.begin.k5.c0"): return ["C15", "C01"]
    if n.startswith("c06.for.step") or n.startswith("c06.for.first.auto") or n.startswith("c06.forall.final"): return ["C01", "C07"]
    if n.startswith("c11.parsingend"): return ["C02"]
    if n.startswith("c12.literal"): return ["C10"]
    if n.startswith("c14.clone") or n.startswith("c16.flags"): return ["C05", "C14"]
    if n.startswith("c17.refcount.destroy") or n.startswith("c18.utf8") or n.startswith("c08."): return ["C01"]
    if n.startswith("c06.forall"): return ["C09"]
    return []

def kf_for(inst, findings):
    return [(k, f) for k, f in enumerate(findings) if any(fnmatch.fnmatch(inst.id, g) for g in f.get("instances", []))]

def run_instance(inst, prop, findings, kfdir, rundir, say):
    """returns a record dict"""
    t0 = time.time()
    rec = dict(id=inst.id, entry=inst.entry, harness=inst.harness, tus=inst.tus, defs=inst.defs, stubs=inst.stubs + ["noop:" + x for x in inst.noops],
               bounds=inst.bounds, inputs=inst.inputs, unwind=inst.unwind, unwindset=inst.unwindset,
               status="ok", failures=[], known=[], notes=[], queries=0, solver_s=0.0)
    wd = os.path.join(rundir, inst.id.replace("/", "_"))
    try:
        objs, gen = V.build_instance(inst, kfdir, wd)
    except V.BuildError as e:
        rec["status"] = "broken"; rec["notes"].append("build: " + str(e)[-1500:])
        return rec
    rec["build_s"] = round(time.time() - t0, 1)
    rec["functions_encoded"] = encoded_functions(gen)
    rel = kf_for(inst, findings)
    # main run: every listed (status known) region excluded
    modes = [0] * len(findings)
    for k, f in enumerate(findings):
        if f.get("status") == "known":
            modes[k] = 1
    gb = V.link_main(objs, inst, modes, "main", wd)
    loops = V.model_loops(objs)
    res = V.run_cbmc(gb, inst, "main", wd, loops)
    rec["queries"] += 1; rec["solver_s"] += res["solver_s"]
    rec["backend"] = res["backend"]; rec["rss_kb"] = res.get("rss_kb", 0); rec["steps"] = res.get("steps"); rec["notes"] += res.get("notes", [])
    if res["verdict"] == "inconclusive":
        rec["status"] = "inconclusive"
        return rec
    props = res["props"]
    rec["assertions"] = len(props)
    rec["assertions_passed"] = sum(1 for d, r in props.values() if r == "SUCCESS")
    witness_ok = False
    sample = None
    for name, (desc, r) in props.items():
        kind, p = V.classify(desc)
        if kind == "witness":
            if r == "FAILURE":
                witness_ok = True
                sample = res["traces"].get(name)
            continue
        if r == "SUCCESS":
            continue
        if kind == "harness":
            rec["status"] = "broken"; rec["notes"].append("harness error: %s (%s)" % (desc, name))
            continue
        rec["failures"].append(dict(name=name, desc=desc, prop=p, inputs=res["traces"].get(name, {}), log=res["log"]))
    rec["sample_inputs"] = {k: v["text"] for k, v in (sample or {}).items()}
    rec["witness_bits"] = {k: v["bits"] for k, v in (sample or {}).items()}
    # known-finding runs: region assumed, the listed assertion must fail
    for k, f in rel:
        if f.get("status") != "known":
            continue
        m2 = list(modes); m2[k] = 2
        gb2 = V.link_main(objs, inst, m2, "kf%d" % k, wd)
        r2 = V.run_cbmc(gb2, inst, "kf%d" % k, wd, loops)
        rec["queries"] += 1; rec["solver_s"] += r2["solver_s"]
        if r2["verdict"] == "inconclusive":
            rec["notes"].append("known finding %s: inconclusive" % f["id"]); continue
        if any(V.classify(d)[0] == "witness" and r == "FAILURE" for d, r in r2["props"].values()) and not witness_ok:
            witness_ok = True
            rec["witness_bits"] = None      # no clean witness exists: the instance's whole domain is a listed defect
            rec["notes"].append("whole instance lies inside known-finding region %s (witness reachable only there)" % f["id"])
        pat = re.compile(f["assertion"])
        hit = [(n, d) for n, (d, r) in r2["props"].items() if r == "FAILURE" and pat.search(d)]
        if hit:
            rec["known"].append(dict(id=f["id"], desc=hit[0][1], what=f["what"], inputs={a: b["text"] for a, b in r2["traces"].get(hit[0][0], {}).items()}))
        else:
            rec["notes"].append("known finding %s no longer reproduces in its region (stale)" % f["id"])
        # anything else failing inside the region that is not the listed assertion is still a failure
        for n, (d, r) in r2["props"].items():
            kind, p = V.classify(d)
            if r == "FAILURE" and kind in ("prop", "safety") and not pat.search(d) and not any(re.search(x, d) for x in f.get("also", [])):
                rec["failures"].append(dict(name=n, desc=d, prop=p, inputs=r2["traces"].get(n, {}), log=r2["log"], region=f["id"]))
    if not witness_ok:
        rec["status"] = "broken"; rec["notes"].append("witness assertion not reachable (vacuous harness)")
    rec["wall_s"] = round(time.time() - t0, 1)
    if rec["status"] == "ok" and not rec["failures"] and not os.environ.get("VX_KEEP"):
        shutil.rmtree(wd, ignore_errors=True)
    return rec

def encoded_functions(gen):
    names = []
    try:
        for line in open(gen, errors="replace"):
            m = re.match(r"^/\* fn: (.+) \*/$", line)
            if m:
                names.append(m.group(1))
    except Exception:
        pass
    return names

def demangle(names):
    if not names:
        return []
    r = V.sh(["c++filt"], input="\n".join(names))
    return r.stdout.splitlines()

def check(prop, tier, only=None, extra_checks=None):
    """run the solver checks of one property; returns exit code."""
    t0 = time.time()
    seed = int(os.environ.get("VERIF_SEED", "0") or 0)
    findings = V.load_known()
    kfdir = V.kf_header(findings)
    rundir = os.path.join(V.OUT, "run", "%s-%s-%d" % (prop, tier, os.getpid()))
    os.makedirs(rundir, exist_ok=True)
    def in_tier(i):
        if i.tier == "experimental":      # kept for development (--tier experimental), part of no registered command
            return tier == "experimental"
        if tier in ("thorough", "experimental"):
            return tier == "thorough"
        if i.tier != "quick":
            return False
        return i.props[0] == prop or (prop in (i.quick_also if i.quick_also is not None else default_quick_also(i)))
    insts = [i for i in load_instances() if prop in i.props and in_tier(i)]
    if os.environ.get("VX_SKIP_QUICK"):      # development sweeps: only the instances the thorough tier adds
        insts = [i for i in insts if i.tier != "quick"]
    if only:
        insts = [i for i in insts if any(fnmatch.fnmatch(i.id, g) for g in only)]
    say = lambda s: (print(s), sys.stdout.flush())
    say("vx: property %s tier %s: %d instance(s), repo %s" % (prop, tier, len(insts), V.REPO))
    # pre-compile all TUs in parallel
    tus = sorted({t for i in insts for t in i.tus})
    errs = []
    with ThreadPoolExecutor(max_workers=V.NCPU) as ex:
        futs = {ex.submit(V.compile_bc, os.path.join(V.REPO, t), V.TU_DEFS.get(t, ()), t.endswith(".c")): t for t in tus}
        for f in as_completed(futs):
            try:
                f.result()
            except V.BuildError as e:
                errs.append(str(e))
    recs = []
    if errs:
        say("vx: BUILD FAILURE of /repo sources:\n" + "\n".join(errs)[-3000:])
    else:
        par = max(1, V.NCPU // 2)
        with ThreadPoolExecutor(max_workers=par) as ex:
            futs = {ex.submit(run_instance, i, prop, findings, kfdir, rundir, say): i for i in insts}
            for f in as_completed(futs):
                i = futs[f]
                try:
                    rec = f.result()
                except Exception as e:
                    rec = dict(id=i.id, status="broken", failures=[], known=[], notes=["driver exception: " + traceback.format_exc()[-700:].replace("\n"," | ")], queries=0, solver_s=0.0)
                recs.append(rec)
                say("  [%s] %-40s %s %s fail=%d known=%d %.1fs %s" % (prop, rec["id"], rec["status"], rec.get("backend"), len(rec["failures"]), len(rec["known"]), rec.get("wall_s", 0), "; ".join(rec["notes"])[-600:]))
    extra = []
    if extra_checks and not errs:
        for fn in extra_checks:
            extra.append(fn(tier, findings, rundir, say))
    # verdicts
    violations = []; known_lines = []; broken = bool(errs); mismatches = []
    for rec in sorted(recs, key=lambda r: r["id"]):
        if rec["status"] in ("broken", "inconclusive"):
            broken = True
        for k in rec["known"]:
            known_lines.append((k["id"], k["what"], rec["id"]))
        # explicit Cnn: labels belong to that property; safety-class failures (UB, invalid pointer, foreign
        # exception) make every property of the kernel fail, so they are reported under whichever check runs
        mine = [f for f in rec["failures"] if f["prop"] is None or f["prop"] == "C01" or prop in f["prop"].split("/")]
        others = [f for f in rec["failures"] if f not in mine]
        rec["other_property_failures"] = [dict(desc=f["desc"], prop=f["prop"]) for f in others]
        if mine:
            inst = next(i for i in insts if i.id == rec["id"])
            rp = R.replay(inst, mine, kfdir, rundir, prop)
            rec["replay"] = rp["summary"]
            if rp["confirmed"]:
                violations.append((rec["id"], rp["path"], rp["confirmed"]))
            if rp["unconfirmed"]:
                mismatches.append((rec["id"], rp["path"], rp["unconfirmed"]))
    for e in extra:
        for k in e.get("known", []):
            known_lines.append(k)
        for v in e.get("violations", []):
            violations.append(v)
        if e.get("broken"):
            broken = True
    # validate solver traces against the implementation: the witness assignment of (a sample of) the instances that held is
    # replayed on the native sanitizer build of the real sources; no harness assertion may fail there
    wv = dict(validated=0, mismatched=[])
    if not errs and recs:
        import random
        okrecs = [r for r in sorted(recs, key=lambda r: r["id"]) if r["status"] == "ok" and not r["failures"] and r.get("witness_bits") is not None]
        if tier == "quick" and len(okrecs) > 10:
            okrecs = random.Random(seed).sample(okrecs, 10)
        try:
            wv = R.replay_witnesses([(next(i for i in insts if i.id == r["id"]), r) for r in okrecs], kfdir, rundir)
        except Exception as e:
            wv = dict(validated=0, mismatched=[], error=str(e)[-400:])
        for iid, what in wv["mismatched"]:
            mismatches.append((iid, "-", ["witness trace does not replay cleanly on the native build: " + what]))
            say("MODEL-MISMATCH property=%s # %s: witness trace of a passing instance fails natively: %s" % (prop, iid, what[:300]))
        if wv.get("error"):
            say("vx: witness replay unavailable: " + wv["error"])
    seen = set()
    for kid, what, iid in known_lines:
        if kid in seen:
            continue
        seen.add(kid)
        say("KNOWN-FINDING: property=%s %s [%s; %s]" % (prop, what, kid, iid))
    for iid, path, descs in violations:
        say("VIOLATION property=%s replay=%s  # %s: %s" % (prop, path, iid, "; ".join(descs)[:400]))
    for iid, path, descs in mismatches:
        say("MODEL-MISMATCH property=%s trace=%s  # %s: counterexample did not reproduce natively: %s" % (prop, path, iid, "; ".join(descs)[:400]))
    write_evidence(prop, tier, seed, recs, extra, violations, mismatches, broken, time.time() - t0, wv)
    R.cleanup()
    if not os.environ.get("VX_KEEP"):
        if not violations and not mismatches and not broken:
            shutil.rmtree(rundir, ignore_errors=True)
        else:
            # keep what explains a failure (sources, scripts, small logs), drop the bulk (goto binaries, SMT dumps, long symex logs)
            for root, dirs, files in os.walk(rundir):
                for f in files:
                    fp = os.path.join(root, f)
                    try:
                        if os.path.getsize(fp) > 4 * 1024 * 1024:
                            os.unlink(fp)
                    except OSError:
                        pass
    if violations:
        return 1
    if mismatches or broken:
        say("vx: check %s is BROKEN or inconclusive (see evidence notes)" % prop)
        return 2
    say("vx: property %s held on everything explored (%d instances, %.0fs)" % (prop, len(recs), time.time() - t0))
    return 0

def write_evidence(prop, tier, seed, recs, extra, violations, mismatches, broken, wall, wv=None):
    wv = wv or dict(validated=0, mismatched=[])
    fns = sorted({f for r in recs for f in r.get("functions_encoded", [])})
    bloc_fns = [f for f in demangle(fns) if f.startswith("bloc::") or f.startswith("bloc_") or "tokenizer" in f or f.startswith("vx")] if fns else []
    nass = sum(r.get("assertions", 0) for r in recs) + sum(e.get("assertions", 0) for e in extra)
    npass = sum(r.get("assertions_passed", 0) for r in recs) + sum(e.get("assertions_passed", 0) for e in extra)
    queries = sum(r.get("queries", 0) for r in recs) + sum(e.get("queries", 0) for e in extra)
    steps = sum((r.get("steps") or 0) for r in recs) + sum(e.get("steps", 0) for e in extra)
    ok_insts = [r for r in recs if r["status"] == "ok"]
    samples = []
    for r in sorted(recs, key=lambda r: r["id"])[:12]:
        samples.append(dict(instance=r["id"], entry=r.get("entry"), bounds=r.get("bounds"), symbolic_inputs=r.get("inputs"),
                            witness_assignment=r.get("sample_inputs"), backend=r.get("backend"), solver_s=round(r.get("solver_s", 0), 1),
                            assertions=r.get("assertions"), status=r["status"]))
    for e in extra:
        samples += e.get("samples", [])[:6]
    n_inst = len(recs) + sum(e.get("instances", 0) for e in extra)
    n_ok = len(ok_insts) + sum(e.get("instances_ok", 0) for e in extra)
    ev = dict(
        property_id=prop, tier=tier, seed=seed, level="model_checking",
        coverage=dict(
            states=max(1, steps), transitions=max(1, nass),
            traces_validated_against_impl=wv["validated"] + sum(r["replay"]["cases"] for r in recs if r.get("replay")) + sum(e.get("replays", 0) for e in extra),
            witness_traces_replayed_natively=wv["validated"],
            samples=samples or [dict(note="no instance ran")],
            evaluations=max(1, queries), distinct_nontrivial=max(0, n_ok),
            rule="one evaluation = one solver query (CBMC portfolio run or direct SMT query) over a harness instance; an instance is distinct by (kernel, instance parameters) and non-trivial when its witness assertion was shown reachable and all harness-error assertions held",
            obligations=nass, discharged=npass,
            explanation="states = SSA steps of the symbolic executions (sum over instances); transitions = assertions (VCCs by description) decided by the solver; bounded model checking of C generated from the LLVM IR of the current /repo sources",
            instances=n_inst, instances_ok=n_ok,
            instance_table=[dict(id=r["id"], status=r["status"], backend=r.get("backend"), solver_s=round(r.get("solver_s", 0), 1), rss_mb=int(r.get("rss_kb", 0) / 1024),
                                 assertions=r.get("assertions"), passed=r.get("assertions_passed"), unwind=r.get("unwind"), unwindset=r.get("unwindset"), bounds=r.get("bounds"),
                                 known=[k["id"] for k in r.get("known", [])], failures=[f["desc"] for f in r.get("failures", [])], notes=r.get("notes"),
                                 other_property_failures=r.get("other_property_failures", []), stubs=r.get("stubs")) for r in sorted(recs, key=lambda r: r["id"])],
            extra=[{k: v for k, v in e.items() if k not in ("samples",)} for e in extra],
            functions_encoded=bloc_fns[:400], functions_encoded_count=len(fns),
            solver_time_s=round(sum(r.get("solver_s", 0) for r in recs) + sum(e.get("solver_s", 0) for e in extra), 1),
            known_findings_reproduced=sorted({k["id"] for r in recs for k in r.get("known", [])} | {k[0] for e in extra for k in e.get("known", [])}),
            model_mismatches=len(mismatches), broken=broken,
        ),
        assumptions=[
            "C model of libstdc++/libc entry points in model/vx_runtime.c (std::string, operator new never fails, exception ABI, libm as described in DESIGN.md 2.3)",
            "ir2c translation of LLVM-14 IR (-O0 + sroa/mem2reg) to C; validated by the differential self-test (./vx selftest)",
            "instance parameters (operand major types, error kinds, sizes) are enumerated by the driver; everything listed under symbolic_inputs is decided by the solver for all values",
            "bounds: per instance --unwind/--unwindset with unwinding assertions; outside them nothing is claimed",
        ],
        wall_s=round(wall, 1), violations=len(violations))
    os.makedirs(os.path.join(V.VERIF, "evidence"), exist_ok=True)
    p = os.path.join(V.VERIF, "evidence", prop + ".json")
    with open(p + ".tmp", "w") as f:
        json.dump(ev, f, indent=1, default=str)
    os.replace(p + ".tmp", p)
