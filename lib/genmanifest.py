#!/usr/bin/env python3
"""writes MANIFEST.json from the table below (kept in one place so it always validates)."""
import json, os, sys
HERE = os.path.dirname(os.path.dirname(os.path.abspath(__file__)))

BASE_OFF = ("cmake -S /repo -B /repo/_build -G Ninja >/dev/null && cmake --build /repo/_build >/dev/null && "
            "ctest --test-dir /repo/_build -j8 --timeout 900")

sys.path.insert(0, os.path.join(HERE, "lib"))
from claims import CLAIMS, NA

def main():
    checks = []
    for pid in sorted(CLAIMS):
        c = CLAIMS[pid]
        checks.append(dict(
            property_id=pid,
            quick_cmd="./vx check %s --tier quick" % pid,
            thorough_cmd="./vx check %s --tier thorough" % pid,
            evidence_file="evidence/%s.json" % pid,
            replay_cmd_template="./vx replay {path}",
            engine="vx",
            level_claimed=dict(category="model_checking", text=c["text"], design_ref=c["ref"]),
            level_note=c["note"],
            technique=c["technique"]))
    m = dict(
        version=1,
        setup_cmd="sh tools/build.sh",
        hooks=dict(guard="BLOC_VERIF", enable="checks compile the /repo sources themselves with -DBLOC_VERIF (no hook is currently needed: harnesses reach internals through the headers)",
                   baseline_off_cmd=BASE_OFF, source_commits=[], add_only=True),
        engines=[dict(name="vx", path="vx", serves_properties=sorted(CLAIMS),
                      kind_free_text="clang-14 LLVM IR of the real translation units -> C (tools/ir2c) -> CBMC 6.11 bounded model checking with z3 / SAT back ends; direct z3 queries for hash and automaton properties; counterexamples replayed on a native sanitizer build")],
        checks=checks,
        not_applicable=[dict(property_id=p, reason=r) for p, r in sorted(NA.items())],
        notes="All checks are solver-based (bounded model checking / SMT) over code regenerated from /repo's working tree on every run. See DESIGN.md.")
    with open(os.path.join(HERE, "MANIFEST.json"), "w") as f:
        json.dump(m, f, indent=1)
    print("MANIFEST.json: %d checks, %d not applicable" % (len(checks), len(NA)))

if __name__ == "__main__":
    main()
