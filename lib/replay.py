"""native replay of solver counterexamples against a sanitizer build of the real sources."""
import json, os, re, shutil, subprocess, hashlib, time, glob
from concurrent.futures import ThreadPoolExecutor
import vxlib as V

_native = {"dir": None}

def cleanup():
    d = _native["dir"]
    if d and os.path.isdir(d):
        shutil.rmtree(d, ignore_errors=True)
    _native["dir"] = None

def native_flags():
    v, sv = V.lib_version()
    return ["-std=gnu++11", "-O0", "-g", "-fsanitize=address,undefined,float-cast-overflow", "-fno-omit-frame-pointer", "-DNDEBUG",
            "-DLIBVERSION=\"%s\"" % v, "-DLIBSOVERSION=\"%s\"" % sv, "-DLIB_DLL_EXPORTS", "-DBLOC_VERIF", "-DVX_NATIVE",
            "-I" + V.REPO, "-I" + os.path.join(V.REPO, "blocc"), "-I" + V.HARNESS_DIR, "-I" + V.MODEL_DIR, "-w"]

def native_objects():
    """sanitizer build of every blocc source of the current tree (scratch dir under /var/tmp, removed by cleanup())."""
    if _native["dir"]:
        return _native["dir"]
    d = "/var/tmp/vx-native-%d" % os.getpid()
    shutil.rmtree(d, ignore_errors=True)
    os.makedirs(d)
    _native["dir"] = d
    srcs = []
    for pat in ("blocc/*.cpp", "blocc/member/*.cpp", "blocc/operator/*.cpp", "blocc/builtin/*.cpp", "blocc/*.c"):
        srcs += sorted(glob.glob(os.path.join(V.REPO, pat)))
    def cc(s):
        o = os.path.join(d, s[len(V.REPO) + 1:].replace("/", "_") + ".o")
        if s.endswith(".c"):
            cmd = ["gcc", "-O0", "-g", "-fsanitize=address,undefined", "-w", "-I" + V.REPO, "-I" + os.path.join(V.REPO, "blocc"), "-DLIB_DLL_EXPORTS", "-c", s, "-o", o]
        else:
            cmd = ["g++"] + native_flags() + ["-c", s, "-o", o]
        r = V.sh(cmd)
        return (s, r.returncode, r.stdout[-2000:])
    with ThreadPoolExecutor(max_workers=V.NCPU) as ex:
        res = list(ex.map(cc, srcs))
    bad = [x for x in res if x[1] != 0]
    if bad:
        raise V.BuildError("native build failed: %s" % bad[0][2])
    return d

def bits_to_int(bits, signed=True):
    v = int(bits, 2)
    if signed and bits[0] == "1":
        v -= 1 << len(bits)
    return v

def replay(inst, failures, kfdir, rundir, prop):
    """replays each distinct counterexample; returns dict(path, confirmed=[desc], unconfirmed=[desc], summary)."""
    os.makedirs(os.path.join(V.OUT, "replay", prop), exist_ok=True)
    confirmed, unconfirmed, cases = [], [], []
    try:
        nd = native_objects()
        exe = os.path.join(rundir, "native-" + inst.id.replace("/", "_"))
        hsrc = os.path.join(V.HARNESS_DIR, inst.harness)
        cmd = ["g++"] + native_flags() + ["-I" + kfdir] + ["-D" + x for x in inst.defs] + \
              ["-DVX_ENTRY=" + inst.entry, hsrc, os.path.join(V.HARNESS_DIR, "vx_native.cpp")] + [os.path.join(V.REPO, t) for t in sorted(set([t for t in inst.tus if not t.startswith("blocc/")] + inst.native_extra))] + \
              sorted(glob.glob(os.path.join(nd, "*.o"))) + ["-Wl,--allow-multiple-definition", "-ldl", "-lpthread", "-lm", "-o", exe]
        r = V.sh(cmd)
        build_err = r.stdout[-3000:] if r.returncode != 0 else None
    except V.BuildError as e:
        build_err = str(e)
    seen = {}
    for f in failures:
        key = json.dumps({k: v["bits"] for k, v in sorted(f["inputs"].items())})
        if key in seen:
            case = seen[key]
        else:
            case = dict(inputs={k: v["text"] for k, v in f["inputs"].items()}, bits={k: v["bits"] for k, v in f["inputs"].items()}, expect=[])
            if build_err:
                case["native"] = dict(error="native build failed: " + build_err)
            else:
                inp = os.path.join(rundir, "inputs-%s-%d.txt" % (inst.id.replace("/", "_"), len(seen)))
                with open(inp, "w") as fh:
                    for k, b in case["bits"].items():
                        fh.write("%s %d\n" % (k, int(b, 2)))
                env = dict(os.environ, VX_INPUTS=inp, ASAN_OPTIONS="detect_leaks=0:abort_on_error=0:exitcode=77", UBSAN_OPTIONS="print_stacktrace=0:halt_on_error=0")
                try:
                    pr = subprocess.run([exe], env=env, stdout=subprocess.PIPE, stderr=subprocess.STDOUT, text=True, errors="replace", timeout=120)
                    out, rc = pr.stdout, pr.returncode
                except subprocess.TimeoutExpired as e:
                    out, rc = (e.stdout or b"").decode(errors="replace") if isinstance(e.stdout, bytes) else (e.stdout or ""), -999
                failed = re.findall(r"^VX-ASSERT-FAILED: (.*)$", out, re.M)
                case["native"] = dict(rc=rc, failed_assertions=failed, ub=re.findall(r"runtime error: (.*)$", out, re.M)[:5],
                                      asan=bool(re.search(r"ERROR: AddressSanitizer", out)), assumption_violated="VX-ASSUME-VIOLATED" in out,
                                      timeout=(rc == -999), tail=out[-1500:])
            seen[key] = case
            cases.append(case)
        case["expect"].append(f["desc"])
        n = case["native"]
        ok = False
        if "error" not in n and not n["assumption_violated"]:
            if f["desc"] in n["failed_assertions"]:
                ok = True
            elif V.classify(f["desc"])[0] == "safety" and (n["ub"] or n["asan"] or n["rc"] not in (0,) or n["failed_assertions"]):
                ok = True   # UB / invalid access confirmed by sanitizer report, crash or a failed C01 assertion
            elif n["timeout"]:
                ok = True   # non-termination of the real code on the solver's input
        (confirmed if ok else unconfirmed).append(f["desc"])
    path = os.path.join(V.OUT, "replay", prop, "%s-%s.json" % (inst.id.replace("/", "_"), hashlib.sha256(json.dumps(cases, default=str).encode()).hexdigest()[:10]))
    with open(path, "w") as fh:
        json.dump(dict(property=prop, instance=inst.id, harness=inst.harness, entry=inst.entry, defs=inst.defs, cases=cases,
                       how="./vx replay %s" % path), fh, indent=1)
    return dict(path=path, confirmed=confirmed, unconfirmed=unconfirmed, summary=dict(cases=len(cases), confirmed=len(confirmed), unconfirmed=len(unconfirmed)))


def build_native_harness(inst, kfdir, rundir):
    nd = native_objects()
    exe = os.path.join(rundir, "native-" + inst.id.replace("/", "_"))
    if os.path.exists(exe):
        return exe, None
    hsrc = os.path.join(V.HARNESS_DIR, inst.harness)
    extra_src = [os.path.join(V.REPO, t) for t in sorted(set([t for t in inst.tus if not t.startswith("blocc/")] + inst.native_extra))]      # apps/ and modules/ sources the kernel names
    if "apps/main.cpp" in inst.tus:
        extra_src = ["-Dmain=bloc_app_main"] + extra_src
    cmd = ["g++"] + native_flags() + ["-I" + kfdir] + ["-D" + x for x in inst.defs] + \
          ["-DVX_ENTRY=" + inst.entry, hsrc, os.path.join(V.HARNESS_DIR, "vx_native.cpp")] + extra_src + \
          sorted(glob.glob(os.path.join(nd, "*.o"))) + ["-Wl,--allow-multiple-definition", "-ldl", "-lpthread", "-lm", "-o", exe]
    r = V.sh(cmd)
    return exe, (r.stdout[-1500:] if r.returncode != 0 else None)

def replay_witnesses(pairs, kfdir, rundir):
    """pairs: [(inst, rec)] of passing instances; replays each witness assignment natively."""
    if not pairs:
        return dict(validated=0, mismatched=[])
    native_objects()
    def one(pr):
        inst, rec = pr
        exe, err = build_native_harness(inst, kfdir, rundir)
        if err:
            return (inst.id, "native build failed: " + err[-300:])
        inp = os.path.join(rundir, "witness-%s.txt" % inst.id.replace("/", "_"))
        with open(inp, "w") as fh:
            for k, b in rec["witness_bits"].items():
                fh.write("%s %d\n" % (k, int(b, 2)))
        env = dict(os.environ, VX_INPUTS=inp, ASAN_OPTIONS="detect_leaks=0:exitcode=77", UBSAN_OPTIONS="halt_on_error=0")
        try:
            pr_ = subprocess.run([exe], env=env, stdout=subprocess.PIPE, stderr=subprocess.STDOUT, text=True, errors="replace", timeout=60)
        except subprocess.TimeoutExpired:
            return (inst.id, "timeout")
        out = pr_.stdout
        if "VX-ASSUME-VIOLATED" in out:
            return (inst.id, "assumption violated natively (trace does not satisfy the harness assumptions)")
        failed = re.findall(r"^VX-ASSERT-FAILED: (.*)$", out, re.M)
        if failed or pr_.returncode != 0 or "VX-DONE" not in out:
            return (inst.id, "rc=%s failed=%s %s" % (pr_.returncode, failed[:3], out[-200:].replace("\n", " | ")))
        return None
    with ThreadPoolExecutor(max_workers=max(2, V.NCPU // 2)) as ex:
        res = list(ex.map(one, pairs))
    bad = [r for r in res if r]
    return dict(validated=len(res) - len(bad), mismatched=bad)
