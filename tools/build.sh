#!/bin/sh
# builds the IR->C translator against the installed LLVM 14 (offline)
set -e
cd "$(dirname "$0")"
if [ ! -x ir2c ] || [ ir2c.cpp -nt ir2c ]; then
  g++ -O1 -std=c++17 ir2c.cpp -o ir2c $(llvm-config-14 --cxxflags --ldflags --libs core irreader support | tr '\n' ' ')
fi
echo "ir2c built"
