// ir2c: translate a (linked, -O0, typed-pointer) LLVM-14 module into a C
// translation unit that CBMC's C front end accepts.
//
// - every function reachable from the --entry functions is translated from the IR
// - C++ exceptions are lowered to a flag protocol (__vx_active / object header)
// - calls to functions that have no body go to "normalised" external prototypes
//   (every pointer parameter is void*), to be provided by the C runtime model;
//   externals the model does not provide become assert(0) stubs
// - UB-carrying instructions (nsw arithmetic, sdiv, shifts, fptosi) get explicit
//   __CPROVER_assert checks when --ub-checks is given
#include <llvm/IR/LLVMContext.h>
#include <llvm/IR/Module.h>
#include <llvm/IR/Instructions.h>
#include <llvm/IR/IntrinsicInst.h>
#include <llvm/IR/Constants.h>
#include <llvm/IR/DataLayout.h>
#include <llvm/IR/Operator.h>
#include <llvm/IR/CFG.h>
#include <llvm/IRReader/IRReader.h>
#include <llvm/Support/SourceMgr.h>
#include <llvm/Support/raw_ostream.h>
#include <llvm/ADT/SmallPtrSet.h>
#include <map>
#include <set>
#include <string>
#include <vector>
#include <sstream>
#include <fstream>
#include <iostream>
#include <functional>

using namespace llvm;

static bool optUB = false;
static std::set<std::string> modelFns;     // externals provided by the runtime model
static std::set<std::string> stubbedFns;   // defined functions to be treated as external (cut)
static std::set<std::string> noopFns;      // defined functions cut to an empty body (e.g. teardown that no assertion depends on)
static std::set<std::string> guardFns;     // functions whose loads/stores get assert-then-assume validity guards

[[noreturn]] static void die(const std::string& m) {
  std::cerr << "ir2c: unsupported: " << m << "\n";
  exit(2);
}

static std::string sanitize(StringRef n) {
  std::string r;
  for (char c : n) {
    if (isalnum((unsigned char)c) || c == '_') r.push_back(c);
    else { char b[8]; snprintf(b, sizeof b, "_x%02x", (unsigned char)c); r += b; }
  }
  return r;
}

struct Emitter {
  Module& M;
  const DataLayout& DL;
  std::map<Type*, std::string> structNames;   // struct / wrapped array / fnptr typedef names
  std::vector<Type*> typeOrder;               // definition order
  std::set<Type*> typeDone, typeInProgress;
  std::ostringstream typeDefs, fwdDecls;
  unsigned typeCounter = 0;

  std::set<const Function*> reachFns;
  std::set<const GlobalVariable*> reachGVs;
  std::vector<const Function*> fnWork;
  std::set<std::string> extDecls;             // emitted normalised externals
  std::ostringstream extProtos, extStubs;

  Emitter(Module& m) : M(m), DL(m.getDataLayout()) {}

  // ---------------------------------------------------------------- types
  std::string aggName(Type* T) {
    auto it = structNames.find(T);
    if (it != structNames.end()) return it->second;
    std::string n;
    if (auto* ST = dyn_cast<StructType>(T)) {
      if (ST->hasName()) n = "S_" + sanitize(ST->getName()) ; else n = "S_anon" + std::to_string(typeCounter);
    } else if (isa<ArrayType>(T)) n = "A_" + std::to_string(typeCounter);
    else if (isa<FunctionType>(T)) n = "F_" + std::to_string(typeCounter);
    typeCounter++;
    // guarantee uniqueness
    static std::set<std::string> used;
    while (used.count(n)) n += "_";
    used.insert(n);
    structNames[T] = n;
    return n;
  }

  // C type for a first-class value / field
  std::string cty(Type* T) {
    if (T->isVoidTy()) return "void";
    if (auto* IT = dyn_cast<IntegerType>(T)) {
      unsigned w = IT->getBitWidth();
      if (w == 1) return "_Bool";
      if (w <= 8) return "uint8_t";
      if (w <= 16) return "uint16_t";
      if (w <= 32) return "uint32_t";
      if (w <= 64) return "uint64_t";
      if (w <= 128) return "unsigned __int128";
      die("integer width " + std::to_string(w));
    }
    if (T->isFloatTy()) return "float";
    if (T->isDoubleTy()) return "double";
    if (T->isX86_FP80Ty()) return "long double";
    if (auto* PT = dyn_cast<PointerType>(T)) {
      Type* E = PT->getPointerElementType();
      if (auto* FT = dyn_cast<FunctionType>(E)) { defineFnPtr(FT); return aggName(FT); }
      if (E->isVoidTy() ) return "void*";
      if (auto* ST = dyn_cast<StructType>(E)) { fwdStruct(ST); return "struct " + aggName(ST) + "*"; }
      if (auto* AT = dyn_cast<ArrayType>(E)) { defineType(AT); return "struct " + aggName(AT) + "*"; }
      return cty(E) + "*";
    }
    if (auto* ST = dyn_cast<StructType>(T)) { defineType(ST); return "struct " + aggName(ST); }
    if (auto* AT = dyn_cast<ArrayType>(T)) { defineType(AT); return "struct " + aggName(AT); }
    std::string s; raw_string_ostream os(s); T->print(os);
    die("type " + os.str());
  }

  void fwdStruct(StructType* ST) {
    static std::set<Type*> fwd;
    if (fwd.insert(ST).second) fwdDecls << "struct " << aggName(ST) << ";\n";
  }

  void defineFnPtr(FunctionType* FT) {
    if (typeDone.count(FT)) return;
    typeDone.insert(FT);
    std::string n = aggName(FT);
    // parameters/return may need types declared first (pointers only need fwd decls)
    std::string ret = cty(FT->getReturnType());
    std::string args;
    for (unsigned i = 0; i < FT->getNumParams(); ++i) { if (i) args += ", "; args += cty(FT->getParamType(i)); }
    if (FT->isVarArg()) args += (FT->getNumParams() ? ", ..." : "");
    if (args.empty() && !FT->isVarArg()) args = "void";
    typeDefs << "typedef " << ret << " (*" << n << ")(" << args << ");\n";
  }

  void defineType(Type* T) {
    if (typeDone.count(T)) return;
    if (typeInProgress.count(T)) die("recursive by-value type");
    typeInProgress.insert(T);
    std::ostringstream body;
    std::string n = aggName(T);
    if (auto* ST = dyn_cast<StructType>(T)) {
      fwdStruct(ST);
      if (ST->isOpaque()) { typeDone.insert(T); typeInProgress.erase(T); return; }
      body << "struct " << (ST->isPacked() ? "__attribute__((packed)) " : "") << n << " {";
      if (ST->getNumElements() == 0) body << " char __empty[0]; ";
      for (unsigned i = 0; i < ST->getNumElements(); ++i)
        body << " " << cty(ST->getElementType(i)) << " f" << i << ";";
      body << " };\n";
      const StructLayout* SL = DL.getStructLayout(ST);
      body << "_Static_assert(sizeof(struct " << n << ") == " << SL->getSizeInBytes() << ", \"size " << n << "\");\n";
      for (unsigned i = 0; i < ST->getNumElements(); ++i)
        if (DL.getTypeAllocSize(ST->getElementType(i)) > 0)
        body << "_Static_assert(__builtin_offsetof(struct " << n << ", f" << i << ") == " << SL->getElementOffset(i) << ", \"off " << n << "\");\n";
    } else if (auto* AT = dyn_cast<ArrayType>(T)) {
      std::string et = cty(AT->getElementType());
      body << "struct " << n << " { " << et << " a[" << AT->getNumElements() << "]; };\n";
    }
    typeDefs << body.str();
    typeDone.insert(T);
    typeInProgress.erase(T);
  }

  // ---------------------------------------------------------------- names
  std::map<const Value*, std::string> localNames;
  unsigned localCounter = 0;

  std::string gname(const GlobalValue* G) {
    std::string n = sanitize(G->getName());
    if (n == "main") n = "__orig_main";
    /* a cut (--stub) function whose replacement the model provides under the name vxstub_<name>: the model's version is
       only linked to when the function is cut, so an instance that keeps the real function has no clash */
    if (stubbedFns.count(G->getName().str()) && modelFns.count("vxstub_" + G->getName().str())) n = "vxstub_" + n;
    return n;
  }

  // normalised external signature: pointers -> void*
  std::string normTy(Type* T) {
    if (T->isPointerTy()) return "void*";
    return cty(T);
  }

  bool isExternal(const Function* F) {
    return F->isDeclaration() || stubbedFns.count(F->getName().str()) || noopFns.count(F->getName().str());
  }

  void declareExternal(const Function* F) {
    std::string n = gname(F);
    if (!extDecls.insert(n).second) return;
    FunctionType* FT = F->getFunctionType();
    std::string args;
    for (unsigned i = 0; i < FT->getNumParams(); ++i) { if (i) args += ", "; args += normTy(FT->getParamType(i)); }
    if (FT->isVarArg()) args += (FT->getNumParams() ? ", ..." : "");
    if (args.empty() && !FT->isVarArg()) args = "void";
    static const std::set<std::string> libc = {"memcmp","strlen","strcmp","strncmp","memchr","strchr","strrchr","strstr","abs","labs","malloc","free","calloc","realloc","fmod","pow","floor","ceil","sqrt","fabs","exit","abort","strtoll","strtoull","strtol","strtoul","strtod"};
    if (libc.count(F->getName().str())) return;
    extProtos << normTy(FT->getReturnType()) << " " << n << "(" << args << ");\n";
    if (!modelFns.count(F->getName().str()) && !modelFns.count("vxstub_" + F->getName().str())) {
      // unmodelled: loud stub
      std::string params;
      for (unsigned i = 0; i < FT->getNumParams(); ++i) { if (i) params += ", "; params += normTy(FT->getParamType(i)) + " p" + std::to_string(i); }
      if (FT->isVarArg()) params += (FT->getNumParams() ? ", ..." : "");
      if (params.empty() && !FT->isVarArg()) params = "void";
      extStubs << normTy(FT->getReturnType()) << " " << n << "(" << params << ") { ";
      if (!noopFns.count(F->getName().str()))
        extStubs << "__CPROVER_assert(0, \"unmodelled external: " << F->getName().str() << "\"); __CPROVER_assume(0); ";
      if (!FT->getReturnType()->isVoidTy()) extStubs << normTy(FT->getReturnType()) << " r; memset(&r,0,sizeof r); return r; ";
      extStubs << "}\n";
    }
  }

  // ---------------------------------------------------------------- constants
  std::string zeroOf(Type* T) {
    if (T->isIntegerTy() || T->isFloatingPointTy()) return "((" + cty(T) + ")0)";
    if (T->isPointerTy()) return "((" + cty(T) + ")0)";
    return "((" + cty(T) + "){0})";
  }

  std::string fpConst(const ConstantFP* C) {
    if (C->getType()->isDoubleTy()) {
      uint64_t bits = C->getValueAPF().bitcastToAPInt().getZExtValue();
      return "__vx_u2d(0x" + utohexstr(bits) + "ULL)";
    }
    if (C->getType()->isFloatTy()) {
      uint32_t bits = (uint32_t)C->getValueAPF().bitcastToAPInt().getZExtValue();
      return "__vx_u2f(0x" + utohexstr(bits) + "U)";
    }
    die("fp constant type");
  }

  void needGlobal(const GlobalValue* G) {
    if (auto* F = dyn_cast<Function>(G)) {
      if (isExternal(F)) { declareExternal(F); return; }
      if (reachFns.insert(F).second) fnWork.push_back(F);
    } else if (auto* GV = dyn_cast<GlobalVariable>(G)) {
      if (reachGVs.insert(GV).second) { gvOrder.push_back(GV); if (GV->hasInitializer()) scanConst(GV->getInitializer()); }
    } else if (auto* GA = dyn_cast<GlobalAlias>(G)) {
      needGlobal(cast<GlobalValue>(GA->getAliasee()->stripPointerCasts()));
    }
  }
  std::vector<const GlobalVariable*> gvOrder;

  void scanConst(const Constant* C) {
    if (auto* G = dyn_cast<GlobalValue>(C)) { needGlobal(G); return; }
    for (const Use& U : C->operands()) if (auto* CC = dyn_cast<Constant>(U.get())) scanConst(CC);
  }

  const GlobalValue* resolveAlias(const GlobalValue* G) {
    while (auto* GA = dyn_cast<GlobalAlias>(G)) G = cast<GlobalValue>(GA->getAliasee()->stripPointerCasts());
    return G;
  }

  // expression (rvalue) for a constant; staticInit => must be a C constant expression
  std::string constExpr(const Constant* C, bool staticInit) {
    Type* T = C->getType();
    if (auto* CI = dyn_cast<ConstantInt>(C)) {
      if (T->isIntegerTy(1)) return CI->isZero() ? "0" : "1";
      if (CI->getBitWidth() > 64) {
        APInt v = CI->getValue();
        uint64_t lo = v.getLoBits(64).getZExtValue(), hi = v.lshr(64).getLoBits(64).getZExtValue();
        return "((((unsigned __int128)0x" + utohexstr(hi) + "ULL) << 64) | 0x" + utohexstr(lo) + "ULL)";
      }
      return "((" + cty(T) + ")0x" + utohexstr(CI->getZExtValue()) + "ULL)";
    }
    if (auto* CF = dyn_cast<ConstantFP>(C)) {
      if (staticInit) {
        // need a constant expression: use hex float via APFloat -> decimal with enough digits
        SmallString<64> s; CF->getValueAPF().toString(s, 0, 0, false);
        std::string str = s.str().str();
        if (CF->getValueAPF().isNaN()) return "__builtin_nan(\"\")";
        if (CF->getValueAPF().isInfinity()) return CF->getValueAPF().isNegative() ? "(-__builtin_inf())" : "__builtin_inf()";
        if (str.find('.') == std::string::npos && str.find('E') == std::string::npos && str.find('e') == std::string::npos) str += ".0";
        return "(" + std::string(T->isFloatTy() ? "(float)" : "") + str + ")";
      }
      return fpConst(CF);
    }
    if (isa<ConstantPointerNull>(C)) return "((" + cty(T) + ")0)";
    if (isa<UndefValue>(C)) { return staticInit ? initZero(T) : zeroOf(T); }
    if (isa<ConstantAggregateZero>(C)) { return staticInit ? initZero(T) : zeroOf(T); }
    if (auto* G = dyn_cast<GlobalValue>(C)) {
      const GlobalValue* R = resolveAlias(G);
      needGlobal(R);
      if (auto* F = dyn_cast<Function>(R)) {
        return "((" + cty(T) + ")" + gname(F) + ")";
      }
      return "((" + cty(T) + ")&" + gname(R) + ")";
    }
    if (auto* CE = dyn_cast<ConstantExpr>(C)) {
      switch (CE->getOpcode()) {
      case Instruction::BitCast:
      case Instruction::AddrSpaceCast:
        if (T->isPointerTy()) return "((" + cty(T) + ")" + constExpr(CE->getOperand(0), staticInit) + ")";
        die("const bitcast non-pointer");
      case Instruction::PtrToInt:
        return "((" + cty(T) + ")(uintptr_t)" + constExpr(CE->getOperand(0), staticInit) + ")";
      case Instruction::IntToPtr:
        return "((" + cty(T) + ")(uintptr_t)" + constExpr(CE->getOperand(0), staticInit) + ")";
      case Instruction::GetElementPtr: {
        auto* GEP = cast<GEPOperator>(CE);
        APInt off(64, 0);
        if (!GEP->accumulateConstantOffset(DL, off)) die("non-constant const GEP");
        return "((" + cty(T) + ")((char*)" + constExpr(CE->getOperand(0), staticInit) + " + " + std::to_string((int64_t)off.getSExtValue()) + "))";
      }
      case Instruction::Add: case Instruction::Sub: {
        std::string op = CE->getOpcode() == Instruction::Add ? "+" : "-";
        return "((" + cty(T) + ")(" + constExpr(CE->getOperand(0), staticInit) + " " + op + " " + constExpr(CE->getOperand(1), staticInit) + "))";
      }
      case Instruction::Trunc: case Instruction::ZExt:
        return "((" + cty(T) + ")" + constExpr(CE->getOperand(0), staticInit) + ")";
      default:
        die(std::string("constexpr opcode ") + CE->getOpcodeName());
      }
    }
    // aggregates
    if (isa<ConstantStruct>(C) || isa<ConstantArray>(C) || isa<ConstantDataSequential>(C)) {
      std::string init = initList(C);
      return staticInit ? init : "((" + cty(T) + ")" + init + ")";
    }
    die("constant kind");
  }

  std::string initZero(Type* T) {
    if (T->isStructTy() || T->isArrayTy()) return "{0}";
    return "0";
  }

  // brace initialiser for aggregate constants (arrays are wrapped in a struct with member a)
  std::string initList(const Constant* C) {
    Type* T = C->getType();
    if (isa<ConstantAggregateZero>(C) || isa<UndefValue>(C)) return initZero(T);
    if (auto* CS = dyn_cast<ConstantStruct>(C)) {
      std::string s = "{";
      for (unsigned i = 0; i < CS->getNumOperands(); ++i) { if (i) s += ", "; s += initList(CS->getOperand(i)); }
      if (CS->getNumOperands() == 0) s += "0";
      return s + "}";
    }
    if (auto* CA = dyn_cast<ConstantArray>(C)) {
      std::string s = "{{";
      for (unsigned i = 0; i < CA->getNumOperands(); ++i) { if (i) s += ", "; s += initList(CA->getOperand(i)); }
      return s + "}}";
    }
    if (auto* CD = dyn_cast<ConstantDataSequential>(C)) {
      std::string s = "{{";
      for (unsigned i = 0; i < CD->getNumElements(); ++i) { if (i) s += ", "; s += constExpr(CD->getElementAsConstant(i), true); }
      return s + "}}";
    }
    return constExpr(C, true);
  }

  // ---------------------------------------------------------------- values
  std::string val(const Value* V) {
    if (auto* C = dyn_cast<Constant>(V)) return constExpr(C, false);
    auto it = localNames.find(V);
    if (it == localNames.end()) die("unknown local value");
    return it->second;
  }

  std::string sTy(unsigned w) { // signed C type of width
    if (w <= 8) return "int8_t"; if (w <= 16) return "int16_t"; if (w <= 32) return "int32_t"; if (w <= 64) return "int64_t"; return "__int128";
  }
  unsigned cWidth(unsigned w) { if (w <= 8) return 8; if (w <= 16) return 16; if (w <= 32) return 32; if (w <= 64) return 64; return 128; }

  // value as signed, sign-extended from its IR width
  std::string sval(const Value* V) {
    unsigned w = V->getType()->getIntegerBitWidth();
    unsigned cw = cWidth(w);
    std::string v = val(V);
    if (w == 1) return "((int8_t)-(int8_t)(" + v + "))";
    if (w == cw) return "((" + sTy(w) + ")" + v + ")";
    // odd width: shift up and arithmetic shift down
    return "((" + sTy(cw) + ")((" + sTy(cw) + ")(" + v + " << " + std::to_string(cw - w) + ") >> " + std::to_string(cw - w) + "))";
  }
  std::string maskTo(const std::string& e, Type* T) {
    unsigned w = T->getIntegerBitWidth();
    unsigned cw = cWidth(w);
    if (w == 1) return "((_Bool)((" + e + ") & 1))";
    if (w == cw) return "((" + cty(T) + ")(" + e + "))";
    return "((" + cty(T) + ")((" + e + ") & ((((" + cty(T) + ")1) << " + std::to_string(w) + ") - 1)))";
  }

  // ---------------------------------------------------------------- functions
  std::string fnProto(const Function* F) {
    std::string s = cty(F->getReturnType()) + " " + gname(F) + "(";
    unsigned i = 0;
    for (const Argument& A : F->args()) { if (i++) s += ", "; s += cty(A.getType()) + " a" + std::to_string(A.getArgNo()); }
    if (F->isVarArg()) die("vararg definition " + F->getName().str());
    if (i == 0) s += "void";
    return s + ")";
  }

  static bool mayThrow(const CallBase* CB) {
    if (CB->doesNotThrow()) return false;
    if (const Function* F = CB->getCalledFunction()) {
      if (F->doesNotThrow()) return false;
      if (F->isIntrinsic()) return false;
    }
    return true;
  }

  std::string gepExpr(const GEPOperator* G, std::function<std::string(const Value*)> V) {
    // typed navigation
    Type* cur = G->getSourceElementType();
    if (cur->isStructTy() || cur->isArrayTy()) defineType(cur);
    std::string base = V(G->getPointerOperand());
    auto it = G->idx_begin();
    std::string e = "(" + base + ")";
    // first index: pointer arithmetic
    {
      const Value* I0 = it->get();
      bool zero = isa<ConstantInt>(I0) && cast<ConstantInt>(I0)->isZero();
      if (cur->isFunctionTy()) die("gep on function");
      if (!zero) {
        std::string idx = isa<ConstantInt>(I0) ? std::to_string(cast<ConstantInt>(I0)->getSExtValue()) : "(" + sTy(I0->getType()->getIntegerBitWidth()) + ")" + V(I0);
        if (cur->isSized() && DL.getTypeAllocSize(cur) == 0) die("gep over zero-size");
        e = "(" + e + " + " + idx + ")";
      }
      ++it;
    }
    if (it == G->idx_end()) return e;
    std::string path = "(*" + e + ")";
    for (; it != G->idx_end(); ++it) {
      const Value* I = it->get();
      if (auto* ST = dyn_cast<StructType>(cur)) {
        unsigned k = cast<ConstantInt>(I)->getZExtValue();
        path += ".f" + std::to_string(k);
        cur = ST->getElementType(k);
        if (cur->isStructTy() || cur->isArrayTy()) defineType(cur);
      } else if (auto* AT = dyn_cast<ArrayType>(cur)) {
        std::string idx = isa<ConstantInt>(I) ? std::to_string(cast<ConstantInt>(I)->getSExtValue()) : "(" + sTy(I->getType()->getIntegerBitWidth()) + ")" + V(I);
        path += ".a[" + idx + "]";
        cur = AT->getElementType();
      } else die("gep into non-aggregate");
    }
    return "(&" + path + ")";
  }

  // does struct type D contain B as (transitive) base subobject?  (bases are leading struct members;
  // secondary bases of multiple inheritance are also plain members, so scan all struct members)
  bool derivesFrom(Type* D, Type* B, int depth = 0) {
    if (D == B) return true;
    if (depth > 6) return false;
    // clang emits "class.X" and "class.X.base" variants; compare by name stem as well
    auto* DS = dyn_cast<StructType>(D); auto* BS = dyn_cast<StructType>(B);
    if (DS && BS && DS->hasName() && BS->hasName()) {
      auto stem = [](StringRef n) { std::string s = n.str(); size_t p = s.rfind('.'); if (p != std::string::npos && p + 1 < s.size() && (isdigit((unsigned char)s[p+1]) || s.substr(p) == ".base")) s = s.substr(0, p); return s; };
      if (stem(DS->getName()) == stem(BS->getName())) return true;
    }
    if (!DS || DS->isOpaque()) return false;
    for (unsigned i = 0; i < DS->getNumElements(); ++i) {
      Type* E = DS->getElementType(i);
      if (E->isStructTy() && derivesFrom(E, B, depth + 1)) return true;
    }
    return false;
  }

  // candidate targets of an indirect call
  std::vector<const Function*> candidates(const CallBase& CB) {
    std::vector<const Function*> r;
    const Value* callee = CB.getCalledOperand()->stripPointerCasts();
    int slot = -1;
    if (auto* LD = dyn_cast<LoadInst>(callee)) {
      const Value* p = LD->getPointerOperand()->stripPointerCasts();
      if (auto* G = dyn_cast<GetElementPtrInst>(p)) {
        if (G->getNumIndices() == 1 && isa<ConstantInt>(G->getOperand(1)) && isa<LoadInst>(G->getPointerOperand()->stripPointerCasts()))
          slot = (int)cast<ConstantInt>(G->getOperand(1))->getSExtValue();
      } else if (auto* L2 = dyn_cast<LoadInst>(p)) {
        // slot 0 only if the inner load reads a vptr (pointer to pointer to function)
        Type* t = L2->getType();
        if (t->isPointerTy() && t->getPointerElementType()->isPointerTy() && t->getPointerElementType()->getPointerElementType()->isFunctionTy()) slot = 0;
      }
    }
    FunctionType* FT = CB.getFunctionType();
    std::set<const Function*> seen;
    if (slot >= 0) {
      for (const GlobalVariable& GV : M.globals()) {
        if (!GV.getName().startswith("_ZTV") || !GV.hasInitializer()) continue;
        auto* CS = dyn_cast<ConstantStruct>(GV.getInitializer());
        if (!CS) continue;
        for (unsigned a = 0; a < CS->getNumOperands(); ++a) {
          auto* CA = dyn_cast<ConstantArray>(CS->getOperand(a));
          if (!CA || CA->getNumOperands() <= (unsigned)(2 + slot)) continue;
          auto* Fn = dyn_cast<Function>(CA->getOperand(2 + slot)->stripPointerCasts());
          if (!Fn || Fn->getName() == "__cxa_pure_virtual") continue;
          FunctionType* CT = Fn->getFunctionType();
          if (CT->getNumParams() != FT->getNumParams()) continue;
          bool ok = CT->getReturnType()->getTypeID() == FT->getReturnType()->getTypeID();
          // class hierarchy filter: the candidate's `this` class must equal or derive from the static receiver class
          // (`this` is parameter 0, or parameter 1 when the function returns a class through an sret pointer)
          unsigned ti = (Fn->arg_size() > 0 && Fn->hasParamAttribute(0, Attribute::StructRet)) ? 1 : 0;
          if (ok && FT->getNumParams() > ti && FT->getParamType(ti)->isPointerTy() && CT->getParamType(ti)->isPointerTy()) {
            Type* want = FT->getParamType(ti)->getPointerElementType();
            Type* have = CT->getParamType(ti)->getPointerElementType();
            if (want->isStructTy() && have->isStructTy()) {
              // an override in a derived class, or the implementation inherited from a base class
              bool down = derivesFrom(have, want), up = derivesFrom(want, have);
              ok = down || up;
              // objects held by value in std containers have exactly their static type:
              // std::_Destroy<T>(T*) / allocator::destroy<T>(T*) destroy a T, never a class derived from T
              StringRef encl = CB.getFunction()->getName();
              if (ok && (encl.startswith("_ZSt8_DestroyI") || encl.contains("7destroyI")) && !(down && up)) ok = false;
            }
          }
          for (unsigned i = 0; ok && i < CT->getNumParams(); ++i) if (i != ti && CT->getParamType(i) != FT->getParamType(i)) ok = false;
          if (ok && seen.insert(Fn).second) r.push_back(Fn);
        }
      }
    } else {
      for (const Function& Fn : M) {
        if (Fn.getFunctionType() != FT || !Fn.hasAddressTaken()) continue;
        if (seen.insert(&Fn).second) r.push_back(&Fn);
      }
    }
    return r;
  }

  void emitFunction(const Function* F, std::ostream& out) {
    localNames.clear(); localCounter = 0;
    out << "/* fn: " << F->getName().str() << " */\n";
    // std::allocator<T>::allocate(n): typed array allocation so that CBMC keeps container storage field-sensitive
    if (F->getName().startswith("_ZNSt15__new_allocatorI") && F->getName().endswith("8allocateEmPKv") && F->getReturnType()->isPointerTy() && F->arg_size() == 3) {
      Type* E = F->getReturnType()->getPointerElementType();
      if (E->isSized() && !E->isFunctionTy()) {
        out << fnProto(F) << " {\n  " << cty(F->getReturnType()) << " p = malloc(sizeof(" << cty(E) << ") * a1);\n  __CPROVER_assume(p != 0);\n  return p;\n}\n\n";
        return;
      }
    }
    std::ostringstream decl, body;
    for (const Argument& A : F->args()) localNames[&A] = "a" + std::to_string(A.getArgNo());
    std::map<const BasicBlock*, std::string> bbName;
    unsigned bbi = 0;
    for (const BasicBlock& BB : *F) bbName[&BB] = "bb" + std::to_string(bbi++);
    Type* RT = F->getReturnType();
    std::string retZero = RT->isVoidTy() ? "return;" : "return " + zeroOf(RT) + ";";
    // name all instructions
    for (const BasicBlock& BB : *F) for (const Instruction& I : BB) {
      if (I.getType()->isVoidTy()) continue;
      std::string n = "v" + std::to_string(localCounter++);
      localNames[&I] = n;
      if (isa<PHINode>(I)) decl << "  " << cty(I.getType()) << " " << n << "; " << cty(I.getType()) << " " << n << "_in;\n";
      else decl << "  " << cty(I.getType()) << " " << n << ";\n";
    }
    auto V = [&](const Value* v) { return val(v); };
    auto edge = [&](const BasicBlock* from, const BasicBlock* to) {
      // phi copies then goto
      std::string s;
      bool any = false;
      for (const PHINode& P : to->phis()) { s += localNames[&P] + "_in = " + V(P.getIncomingValueForBlock(from)) + "; "; any = true; }
      (void)any;
      s += "goto " + bbName[to] + ";";
      return s;
    };
    for (const BasicBlock& BB : *F) {
      body << bbName[&BB] << ": ;\n";
      for (const PHINode& P : BB.phis()) body << "  " << localNames[&P] << " = " << localNames[&P] << "_in;\n";
      for (const Instruction& I : BB) {
        if (isa<PHINode>(I)) continue;
        std::string L = I.getType()->isVoidTy() ? "" : localNames[&I];
        Type* T = I.getType();
        switch (I.getOpcode()) {
        case Instruction::Alloca: {
          auto& A = cast<AllocaInst>(I);
          Type* AT = A.getAllocatedType();
          if (!A.isStaticAlloca() && !isa<ConstantInt>(A.getArraySize())) {
            body << "  " << L << " = (" << cty(T) << ")malloc(sizeof(" << cty(AT) << ") * " << V(A.getArraySize()) << ");\n";
          } else {
            uint64_t n = cast<ConstantInt>(A.getArraySize())->getZExtValue();
            if (n == 1) { decl << "  " << cty(AT) << " " << L << "_m;\n"; body << "  " << L << " = &" << L << "_m;\n"; }
            else { decl << "  " << cty(AT) << " " << L << "_m[" << n << "];\n"; body << "  " << L << " = " << L << "_m;\n"; }
          }
          break;
        }
        case Instruction::Load:
          // kernel functions: an invalid access is reported AND the path ends there (execution after UB is meaningless and
          // makes symbolic execution explode); CBMC's own pointer check at the access below is then subsumed
          if (guardFns.count(F->getName().str()) && !isa<AllocaInst>(I.getOperand(0)->stripPointerCasts()) && !isa<GlobalVariable>(I.getOperand(0)->stripPointerCasts()))
            body << "  __CPROVER_assert(__CPROVER_r_ok(" << V(I.getOperand(0)) << ", sizeof(*" << V(I.getOperand(0)) << ")), \"C01: invalid memory read (null or dangling pointer)\"); __CPROVER_assume(__CPROVER_r_ok(" << V(I.getOperand(0)) << ", sizeof(*" << V(I.getOperand(0)) << ")));\n";
          body << "  " << L << " = *" << V(I.getOperand(0)) << ";\n"; break;
        case Instruction::Store:
          if (guardFns.count(F->getName().str()) && !isa<AllocaInst>(I.getOperand(1)->stripPointerCasts()) && !isa<GlobalVariable>(I.getOperand(1)->stripPointerCasts()))
            body << "  __CPROVER_assert(__CPROVER_w_ok(" << V(I.getOperand(1)) << ", sizeof(*" << V(I.getOperand(1)) << ")), \"C01: invalid memory write (null or dangling pointer)\"); __CPROVER_assume(__CPROVER_w_ok(" << V(I.getOperand(1)) << ", sizeof(*" << V(I.getOperand(1)) << ")));\n";
          body << "  *" << V(I.getOperand(1)) << " = " << V(I.getOperand(0)) << ";\n"; break;
        case Instruction::GetElementPtr:
          body << "  " << L << " = (" << cty(T) << ")" << gepExpr(cast<GEPOperator>(&I), V) << ";\n"; break;
        case Instruction::BitCast: {
          Type* ST = I.getOperand(0)->getType();
          if (T->isPointerTy() && ST->isPointerTy()) body << "  " << L << " = (" << cty(T) << ")" << V(I.getOperand(0)) << ";\n";
          else if (T->isDoubleTy() && ST->isIntegerTy(64)) body << "  " << L << " = __vx_u2d(" << V(I.getOperand(0)) << ");\n";
          else if (T->isIntegerTy(64) && ST->isDoubleTy()) body << "  " << L << " = __vx_d2u(" << V(I.getOperand(0)) << ");\n";
          else if (T->isFloatTy() && ST->isIntegerTy(32)) body << "  " << L << " = __vx_u2f(" << V(I.getOperand(0)) << ");\n";
          else if (T->isIntegerTy(32) && ST->isFloatTy()) body << "  " << L << " = __vx_f2u(" << V(I.getOperand(0)) << ");\n";
          else die("bitcast kind");
          break;
        }
        case Instruction::PtrToInt: body << "  " << L << " = " << maskTo("(uintptr_t)" + V(I.getOperand(0)), T) << ";\n"; break;
        case Instruction::IntToPtr: body << "  " << L << " = (" << cty(T) << ")(uintptr_t)" << V(I.getOperand(0)) << ";\n"; break;
        case Instruction::Trunc: body << "  " << L << " = " << maskTo(V(I.getOperand(0)), T) << ";\n"; break;
        case Instruction::ZExt: body << "  " << L << " = (" << cty(T) << ")" << V(I.getOperand(0)) << ";\n"; break;
        case Instruction::SExt: body << "  " << L << " = " << maskTo("(" + sTy(cWidth(T->getIntegerBitWidth())) + ")" + sval(I.getOperand(0)), T) << ";\n"; break;
        case Instruction::SIToFP: body << "  " << L << " = (" << cty(T) << ")" << sval(I.getOperand(0)) << ";\n"; break;
        case Instruction::UIToFP: body << "  " << L << " = (" << cty(T) << ")" << V(I.getOperand(0)) << ";\n"; break;
        case Instruction::FPTrunc: case Instruction::FPExt:
          body << "  " << L << " = (" << cty(T) << ")" << V(I.getOperand(0)) << ";\n"; break;
        case Instruction::FPToSI: {
          unsigned w = T->getIntegerBitWidth();
          std::string x = V(I.getOperand(0));
          if (optUB) {
            // representable iff  -2^(w-1) - 1 < x < 2^(w-1); for w > 53 the bound -2^(w-1) - 1 is not a double, use x >= -2^(w-1)
            std::string lo = w > 53 ? ("(double)" + x + " >= -" + std::to_string(std::ldexp(1.0, w - 1))) : ("(double)" + x + " > -" + std::to_string(std::ldexp(1.0, w - 1)) + " - 1.0");
            body << "  __CPROVER_assert(!__CPROVER_isnand((double)" << x << ") && " << lo << " && (double)" << x << " < " << std::to_string(std::ldexp(1.0, w - 1))
                 << ", \"UB: fptosi out of range\");\n";
          }
          body << "  " << L << " = " << maskTo("(" + sTy(cWidth(w)) + ")" + x, T) << ";\n"; break;
        }
        case Instruction::FPToUI: {
          unsigned w = T->getIntegerBitWidth();
          std::string x = V(I.getOperand(0));
          if (optUB) body << "  __CPROVER_assert(!__CPROVER_isnand((double)" << x << ") && (double)" << x << " > -1.0 && (double)" << x << " < " << std::to_string(std::ldexp(1.0, w)) << ", \"UB: fptoui out of range\");\n";
          body << "  " << L << " = " << maskTo("(" + cty(T) + ")" + x, T) << ";\n"; break;
        }
        case Instruction::Add: case Instruction::Sub: case Instruction::Mul: {
          auto& B = cast<BinaryOperator>(I);
          const char* op = I.getOpcode() == Instruction::Add ? "+" : I.getOpcode() == Instruction::Sub ? "-" : "*";
          unsigned w = T->getIntegerBitWidth();
          if (optUB && B.hasNoSignedWrap() && w == cWidth(w)) {
            const char* fn = I.getOpcode() == Instruction::Add ? "__CPROVER_overflow_plus" : I.getOpcode() == Instruction::Sub ? "__CPROVER_overflow_minus" : "__CPROVER_overflow_mult";
            body << "  __CPROVER_assert(!" << fn << "(" << sval(I.getOperand(0)) << ", " << sval(I.getOperand(1)) << "), \"UB: signed overflow in " << I.getOpcodeName() << "\");\n";
          }
          std::string wt = w <= 32 ? "uint32_t" : (w <= 64 ? "uint64_t" : "unsigned __int128");
          body << "  " << L << " = " << maskTo("(" + wt + ")" + V(I.getOperand(0)) + " " + op + " (" + wt + ")" + V(I.getOperand(1)), T) << ";\n"; break;
        }
        case Instruction::UDiv: case Instruction::URem: {
          const char* op = I.getOpcode() == Instruction::UDiv ? "/" : "%";
          body << "  __CPROVER_assert(" << V(I.getOperand(1)) << " != 0, \"UB: division by zero\");\n";
          body << "  " << L << " = " << maskTo(V(I.getOperand(0)) + " " + op + " " + V(I.getOperand(1)), T) << ";\n"; break;
        }
        case Instruction::SDiv: case Instruction::SRem: {
          const char* op = I.getOpcode() == Instruction::SDiv ? "/" : "%";
          unsigned w = T->getIntegerBitWidth();
          std::string a = sval(I.getOperand(0)), b = sval(I.getOperand(1));
          std::string mn = "(" + sTy(cWidth(w)) + ")(((" + sTy(cWidth(w)) + ")1) << " + std::to_string(w - 1) + ")";
          body << "  __CPROVER_assert(" << b << " != 0, \"UB: division by zero\");\n";
          body << "  __CPROVER_assert(!(" << a << " == " << mn << " && " << b << " == -1), \"UB: signed division overflow\");\n";
          body << "  " << L << " = " << maskTo("(" + b + " == -1 ? (" + sTy(cWidth(w)) + ")(" + (I.getOpcode() == Instruction::SDiv ? "0 - (" + cty(T) + ")" + a : std::string("0")) + ") : (" + sTy(cWidth(w)) + ")(" + a + " " + op + " " + b + "))", T) << ";\n"; break;
        }
        case Instruction::Shl: case Instruction::LShr: case Instruction::AShr: {
          unsigned w = T->getIntegerBitWidth();
          std::string a = V(I.getOperand(0)), b = V(I.getOperand(1));
          if (optUB) body << "  __CPROVER_assert(" << b << " < " << w << ", \"UB: shift amount out of range\");\n";
          std::string wt = w <= 32 ? "uint32_t" : (w <= 64 ? "uint64_t" : "unsigned __int128");
          std::string e;
          if (I.getOpcode() == Instruction::Shl) e = "((" + wt + ")" + a + " << (" + b + " & " + std::to_string(cWidth(w) <= 32 ? 31 : cWidth(w) - 1) + "))";
          else if (I.getOpcode() == Instruction::LShr) e = "((" + wt + ")" + a + " >> (" + b + " & " + std::to_string(cWidth(w) <= 32 ? 31 : cWidth(w) - 1) + "))";
          else e = "(" + sval(I.getOperand(0)) + " >> (" + b + " & " + std::to_string(cWidth(w) - 1) + "))";
          body << "  " << L << " = " << maskTo(e, T) << ";\n"; break;
        }
        case Instruction::And: case Instruction::Or: case Instruction::Xor: {
          const char* op = I.getOpcode() == Instruction::And ? "&" : I.getOpcode() == Instruction::Or ? "|" : "^";
          body << "  " << L << " = " << maskTo(V(I.getOperand(0)) + " " + op + " " + V(I.getOperand(1)), T) << ";\n"; break;
        }
        case Instruction::FAdd: case Instruction::FSub: case Instruction::FMul: case Instruction::FDiv: {
          const char* op = I.getOpcode() == Instruction::FAdd ? "+" : I.getOpcode() == Instruction::FSub ? "-" : I.getOpcode() == Instruction::FMul ? "*" : "/";
          body << "  " << L << " = " << V(I.getOperand(0)) << " " << op << " " << V(I.getOperand(1)) << ";\n"; break;
        }
        case Instruction::FRem: body << "  " << L << " = fmod(" << V(I.getOperand(0)) << ", " << V(I.getOperand(1)) << ");\n"; break;
        case Instruction::FNeg: body << "  " << L << " = -" << V(I.getOperand(0)) << ";\n"; break;
        case Instruction::ICmp: {
          auto& C = cast<ICmpInst>(I);
          const Value *a = C.getOperand(0), *b = C.getOperand(1);
          std::string op; bool sg = false;
          switch (C.getPredicate()) {
          case CmpInst::ICMP_EQ: op = "=="; break; case CmpInst::ICMP_NE: op = "!="; break;
          case CmpInst::ICMP_UGT: op = ">"; break; case CmpInst::ICMP_UGE: op = ">="; break;
          case CmpInst::ICMP_ULT: op = "<"; break; case CmpInst::ICMP_ULE: op = "<="; break;
          case CmpInst::ICMP_SGT: op = ">"; sg = true; break; case CmpInst::ICMP_SGE: op = ">="; sg = true; break;
          case CmpInst::ICMP_SLT: op = "<"; sg = true; break; case CmpInst::ICMP_SLE: op = "<="; sg = true; break;
          default: die("icmp pred");
          }
          if (a->getType()->isPointerTy()) {
            if (op == "==" || op == "!=") body << "  " << L << " = ((void*)" << V(a) << " " << op << " (void*)" << V(b) << ");\n";
            else body << "  " << L << " = ((uintptr_t)" << V(a) << " " << op << " (uintptr_t)" << V(b) << ");\n";
          }
          else if (sg) body << "  " << L << " = (" << sval(a) << " " << op << " " << sval(b) << ");\n";
          else body << "  " << L << " = (" << V(a) << " " << op << " " << V(b) << ");\n";
          break;
        }
        case Instruction::FCmp: {
          auto& C = cast<FCmpInst>(I);
          std::string a = V(C.getOperand(0)), b = V(C.getOperand(1));
          std::string un = "(__CPROVER_isnand((double)" + a + ") || __CPROVER_isnand((double)" + b + "))";
          std::string e;
          switch (C.getPredicate()) {
          case CmpInst::FCMP_FALSE: e = "0"; break; case CmpInst::FCMP_TRUE: e = "1"; break;
          case CmpInst::FCMP_OEQ: e = a + " == " + b; break; case CmpInst::FCMP_OGT: e = a + " > " + b; break;
          case CmpInst::FCMP_OGE: e = a + " >= " + b; break; case CmpInst::FCMP_OLT: e = a + " < " + b; break;
          case CmpInst::FCMP_OLE: e = a + " <= " + b; break;
          case CmpInst::FCMP_ONE: e = "(!" + un + " && " + a + " != " + b + ")"; break;
          case CmpInst::FCMP_ORD: e = "!" + un; break; case CmpInst::FCMP_UNO: e = un; break;
          case CmpInst::FCMP_UEQ: e = "(" + un + " || " + a + " == " + b + ")"; break;
          case CmpInst::FCMP_UGT: e = "(" + un + " || " + a + " > " + b + ")"; break;
          case CmpInst::FCMP_UGE: e = "(" + un + " || " + a + " >= " + b + ")"; break;
          case CmpInst::FCMP_ULT: e = "(" + un + " || " + a + " < " + b + ")"; break;
          case CmpInst::FCMP_ULE: e = "(" + un + " || " + a + " <= " + b + ")"; break;
          case CmpInst::FCMP_UNE: e = "(" + a + " != " + b + ")"; break;
          default: die("fcmp pred");
          }
          body << "  " << L << " = (" << e << ");\n"; break;
        }
        case Instruction::Select:
          body << "  " << L << " = " << V(I.getOperand(0)) << " ? " << V(I.getOperand(1)) << " : " << V(I.getOperand(2)) << ";\n"; break;
        case Instruction::ExtractValue: {
          auto& E = cast<ExtractValueInst>(I);
          std::string p = V(E.getAggregateOperand()); Type* cur = E.getAggregateOperand()->getType();
          for (unsigned k : E.indices()) { if (auto* ST = dyn_cast<StructType>(cur)) { p += ".f" + std::to_string(k); cur = ST->getElementType(k);} else { p += ".a[" + std::to_string(k) + "]"; cur = cast<ArrayType>(cur)->getElementType(); } }
          body << "  " << L << " = " << p << ";\n"; break;
        }
        case Instruction::InsertValue: {
          auto& E = cast<InsertValueInst>(I);
          body << "  " << L << " = " << V(E.getAggregateOperand()) << ";\n";
          std::string p = L; Type* cur = T;
          for (unsigned k : E.indices()) { if (auto* ST = dyn_cast<StructType>(cur)) { p += ".f" + std::to_string(k); cur = ST->getElementType(k);} else { p += ".a[" + std::to_string(k) + "]"; cur = cast<ArrayType>(cur)->getElementType(); } }
          body << "  " << p << " = " << V(E.getInsertedValueOperand()) << ";\n"; break;
        }
        case Instruction::Br: {
          auto& B = cast<BranchInst>(I);
          if (B.isUnconditional()) body << "  " << edge(&BB, B.getSuccessor(0)) << "\n";
          else body << "  if (" << V(B.getCondition()) << ") { " << edge(&BB, B.getSuccessor(0)) << " } else { " << edge(&BB, B.getSuccessor(1)) << " }\n";
          break;
        }
        case Instruction::Switch: {
          auto& S = cast<SwitchInst>(I);
          body << "  switch (" << V(S.getCondition()) << ") {\n";
          for (auto& C : S.cases()) body << "    case " << constExpr(C.getCaseValue(), true) << ": { " << edge(&BB, C.getCaseSuccessor()) << " }\n";
          body << "    default: { " << edge(&BB, S.getDefaultDest()) << " }\n  }\n";
          break;
        }
        case Instruction::Ret:
          if (I.getNumOperands()) body << "  return " << V(I.getOperand(0)) << ";\n"; else body << "  return;\n";
          break;
        case Instruction::Unreachable:
          body << "  __CPROVER_assert(0, \"IR unreachable reached in " << F->getName().str() << "\"); __CPROVER_assume(0);\n"; break;
        case Instruction::Resume: {
          body << "  __vx_resume(" << V(I.getOperand(0)) << ".f0); " << retZero << "\n"; break;
        }
        case Instruction::LandingPad: {
          auto& LP = cast<LandingPadInst>(I);
          // selector computation
          body << "  { int sel = 0; _Bool hit = 0;\n";
          for (unsigned k = 0; k < LP.getNumClauses(); ++k) {
            if (!LP.isCatch(k)) die("filter clause");
            const Constant* TI = LP.getClause(k)->stripPointerCasts();
            if (isa<ConstantPointerNull>(TI)) body << "    if (!hit) { hit = 1; sel = __vx_typeid((void*)0); }\n";
            else body << "    if (!hit && __vx_isa(__vx_cur_type(), (void*)" << constExpr(cast<Constant>(TI), false) << ")) { hit = 1; sel = __vx_typeid((void*)" << constExpr(cast<Constant>(TI), false) << "); }\n";
          }
          if (!LP.isCleanup()) body << "    if (!hit) { " << retZero << " }\n";
          body << "    __vx_landed();\n";
          body << "    " << L << ".f0 = (uint8_t*)__vx_cur_obj(); " << L << ".f1 = (uint32_t)sel; }\n";
          break;
        }
        case Instruction::Call: case Instruction::Invoke: {
          auto& CB = cast<CallBase>(I);
          emitCall(CB, body, L, retZero, bbName, edge, &BB);
          break;
        }
        case Instruction::Fence: break;
        case Instruction::AtomicRMW: {
          auto& A = cast<AtomicRMWInst>(I);
          std::string p = V(A.getPointerOperand()), v = V(A.getValOperand());
          body << "  " << L << " = *" << p << ";\n";
          switch (A.getOperation()) {
          case AtomicRMWInst::Add: body << "  *" << p << " = " << L << " + " << v << ";\n"; break;
          case AtomicRMWInst::Sub: body << "  *" << p << " = " << L << " - " << v << ";\n"; break;
          case AtomicRMWInst::Xchg: body << "  *" << p << " = " << v << ";\n"; break;
          default: die("atomicrmw op");
          }
          break;
        }
        default:
          die(std::string("instruction ") + I.getOpcodeName() + " in " + F->getName().str());
        }
      }
    }
    out << fnProto(F) << " {\n" << decl.str() << body.str() << "}\n\n";
  }

  std::string strLiteralOf(const Value* V) {
    // if V points to a constant C string, return it
    const Value* S = V->stripPointerCasts();
    if (auto* GV = dyn_cast<GlobalVariable>(S)) if (GV->hasInitializer()) if (auto* CD = dyn_cast<ConstantDataArray>(GV->getInitializer())) if (CD->isCString()) {
      std::string r; for (char c : CD->getAsCString()) { if (c == '"' || c == '\\') r.push_back('\\'); if (c == '\n') { r += "\\n"; continue; } r.push_back(c); } return r; }
    return "";
  }

  template <class EdgeFn>
  void emitCall(const CallBase& CB, std::ostream& body, const std::string& L, const std::string& retZero,
                std::map<const BasicBlock*, std::string>& bbName, EdgeFn edge, const BasicBlock* BB) {
    auto V = [&](const Value* v) { return val(v); };
    const Function* F = CB.getCalledFunction();
    if (!F) {
      const Value* co = CB.getCalledOperand()->stripPointerCasts();
      while (auto* GA = dyn_cast<GlobalAlias>(co)) co = GA->getAliasee()->stripPointerCasts();
      if (auto* CF = dyn_cast<Function>(co)) F = CF;
    }
    std::string assign = L.empty() ? "" : L + " = ";
    Type* RT = CB.getType();
    bool handled = false;
    if (CB.isInlineAsm()) { body << "  __CPROVER_assert(0, \"inline asm\");\n"; handled = true; }
    if (!handled && F && F->isIntrinsic()) {
      StringRef n = F->getName();
      handled = true;
      // llvm.memcpy allows source and destination to be exactly equal (self-assignment of a struct)
      if (n.startswith("llvm.memcpy")) body << "  if ((void*)" << V(CB.getArgOperand(0)) << " != (void*)" << V(CB.getArgOperand(1)) << ") memcpy(" << V(CB.getArgOperand(0)) << ", " << V(CB.getArgOperand(1)) << ", " << V(CB.getArgOperand(2)) << ");\n";
      else if (n.startswith("llvm.memmove")) body << "  memmove(" << V(CB.getArgOperand(0)) << ", " << V(CB.getArgOperand(1)) << ", " << V(CB.getArgOperand(2)) << ");\n";
      else if (n.startswith("llvm.memset")) body << "  memset(" << V(CB.getArgOperand(0)) << ", " << V(CB.getArgOperand(1)) << ", " << V(CB.getArgOperand(2)) << ");\n";
      else if (n.startswith("llvm.lifetime") || n.startswith("llvm.dbg") || n.startswith("llvm.stackrestore") || n.startswith("llvm.assume") || n.startswith("llvm.experimental.noalias")) {}
      else if (n.startswith("llvm.stacksave")) body << "  " << assign << "(uint8_t*)0;\n";
      else if (n.startswith("llvm.trap")) body << "  __CPROVER_assert(0, \"llvm.trap\"); __CPROVER_assume(0);\n";
      else if (n.startswith("llvm.eh.typeid.for")) body << "  " << assign << "(uint32_t)__vx_typeid((void*)" << V(CB.getArgOperand(0)) << ");\n";
      else if (n.startswith("llvm.fabs")) body << "  " << assign << "fabs(" << V(CB.getArgOperand(0)) << ");\n";
      else if (n.startswith("llvm.floor")) body << "  " << assign << "floor(" << V(CB.getArgOperand(0)) << ");\n";
      else if (n.startswith("llvm.ceil")) body << "  " << assign << "ceil(" << V(CB.getArgOperand(0)) << ");\n";
      else if (n.startswith("llvm.sqrt")) body << "  " << assign << "sqrt(" << V(CB.getArgOperand(0)) << ");\n";
      else if (n.startswith("llvm.fmuladd")) body << "  " << assign << V(CB.getArgOperand(0)) << " * " << V(CB.getArgOperand(1)) << " + " << V(CB.getArgOperand(2)) << ";\n";
      else if (n.startswith("llvm.umul.with.overflow")) {
        body << "  { unsigned __int128 p = (unsigned __int128)" << V(CB.getArgOperand(0)) << " * (unsigned __int128)" << V(CB.getArgOperand(1)) << "; "
             << L << ".f0 = (" << cty(CB.getArgOperand(0)->getType()) << ")p; " << L << ".f1 = (p >> " << CB.getArgOperand(0)->getType()->getIntegerBitWidth() << ") != 0; }\n";
      }
      else if (n.startswith("llvm.uadd.with.overflow")) {
        body << "  { unsigned __int128 p = (unsigned __int128)" << V(CB.getArgOperand(0)) << " + (unsigned __int128)" << V(CB.getArgOperand(1)) << "; "
             << L << ".f0 = (" << cty(CB.getArgOperand(0)->getType()) << ")p; " << L << ".f1 = (p >> " << CB.getArgOperand(0)->getType()->getIntegerBitWidth() << ") != 0; }\n";
      }
      else if (n.startswith("llvm.sadd.with.overflow") || n.startswith("llvm.ssub.with.overflow") || n.startswith("llvm.smul.with.overflow")) {
        unsigned W = CB.getArgOperand(0)->getType()->getIntegerBitWidth();
        std::string st = "int" + std::to_string(W) + "_t";
        const char* opc = n.startswith("llvm.sadd") ? "+" : n.startswith("llvm.ssub") ? "-" : "*";
        const char* ovf = n.startswith("llvm.sadd") ? "__CPROVER_overflow_plus" : n.startswith("llvm.ssub") ? "__CPROVER_overflow_minus" : "__CPROVER_overflow_mult";
        body << "  { " << st << " x = (" << st << ")" << V(CB.getArgOperand(0)) << ", y = (" << st << ")" << V(CB.getArgOperand(1)) << "; "
             << L << ".f1 = " << ovf << "(x, y); " << L << ".f0 = (" << cty(CB.getArgOperand(0)->getType()) << ")((u" << st << ")x " << opc << " (u" << st << ")y); }\n";
      }
      else if (n.startswith("llvm.is.constant")) body << "  " << assign << "0;\n";      /* never a compile-time constant at -O0 */
      else if (n.startswith("llvm.va_start") || n.startswith("llvm.va_end")) { body << "  __CPROVER_assert(0, \"model bound: va_list in translated code\");\n"; }
      else die("intrinsic " + n.str());
    }
    if (!handled && F && (F->getName() == "_Znwm" || F->getName() == "_Znam") && isa<ConstantInt>(CB.getArgOperand(0)) && !L.empty()) {
      // typed allocation: `new T` is operator new(sizeof T) followed by a bitcast to T*; emitting
      // malloc(sizeof(struct T)) lets CBMC create a typed (field-sensitive) dynamic object
      uint64_t N = cast<ConstantInt>(CB.getArgOperand(0))->getZExtValue();
      Type* T = nullptr;
      for (const User* U : CB.users()) if (auto* BC = dyn_cast<BitCastInst>(U)) {
        Type* E = BC->getType()->getPointerElementType();
        if ((E->isStructTy() && !cast<StructType>(E)->isOpaque()) && DL.getTypeAllocSize(E) == N) { T = E; break; }
      }
      if (T) {
        body << "  " << L << " = (uint8_t*)malloc(sizeof(" << cty(T) << ")); __CPROVER_assume(" << L << " != 0);\n";
        handled = true;
      }
    }
    if (!handled && F) {
      StringRef n = F->getName();
      // harness primitives
      if (n == "verif_assume") { body << "  __CPROVER_assume(" << V(CB.getArgOperand(0)) << ");\n"; handled = true; }
      else if (n == "verif_assert") {
        std::string msg = strLiteralOf(CB.getArgOperand(1)); if (msg.empty()) msg = "verif_assert";
        body << "  __CPROVER_assert(" << V(CB.getArgOperand(0)) << ", \"" << msg << "\");\n"; handled = true;
      }
    }
    if (!handled) {
      std::string callee;
      FunctionType* FT = CB.getFunctionType();
      std::vector<std::string> args;
      for (unsigned i = 0; i < CB.arg_size(); ++i) {
        std::string a = V(CB.getArgOperand(i));
        if (CB.isByValArgument(i)) {
          // private copy for the callee
          Type* ET = CB.getParamByValType(i);
          std::string tmp = "bv" + std::to_string(localCounter++);
          body << "  " << cty(ET) << " " << tmp << " = *(" << cty(ET) << "*)" << a << ";\n";
          a = "(" + cty(CB.getArgOperand(i)->getType()) + ")&" + tmp;
        }
        args.push_back(a);
      }
      bool ext = F && isExternal(F);
      if (F) {
        needGlobal(F);
        callee = gname(F);
        if (ext) for (unsigned i = 0; i < args.size(); ++i) if (CB.getArgOperand(i)->getType()->isPointerTy()) args[i] = "(void*)" + args[i];
      } else {
        callee = "(" + V(CB.getCalledOperand()) + ")";
      }
      auto mkcall = [&](const std::string& cal, const std::vector<std::string>& as) {
        std::string call = cal + "(";
        for (unsigned i = 0; i < as.size(); ++i) { if (i) call += ", "; call += as[i]; }
        return call + ")";
      };
      if (F) {
        std::string call = mkcall(callee, args);
        if (!L.empty()) {
          if (ext && RT->isPointerTy()) body << "  " << L << " = (" << cty(RT) << ")" << call << ";\n";
          else body << "  " << L << " = " << call << ";\n";
        } else body << "  " << call << ";\n";
      } else {
        // devirtualise: explicit dispatch over the candidate set
        std::vector<const Function*> cands = candidates(CB);
        std::string fp = V(CB.getCalledOperand());
        body << "  ";
        for (const Function* C : cands) {
          needGlobal(C);
          bool cext = isExternal(C);
          std::vector<std::string> as;
          FunctionType* CT = C->getFunctionType();
          for (unsigned i = 0; i < args.size(); ++i) {
            if (cext && CB.getArgOperand(i)->getType()->isPointerTy()) as.push_back("(void*)" + args[i]);
            else if (i < CT->getNumParams()) as.push_back("(" + cty(CT->getParamType(i)) + ")" + args[i]);
            else as.push_back(args[i]);
          }
          std::string call = mkcall(gname(C), as);
          body << "if (" << fp << " == (" << cty(CB.getCalledOperand()->getType()) << ")" << gname(C) << ") { ";
          if (!L.empty()) body << L << " = (" << cty(RT) << ")" << call << "; "; else body << call << "; ";
          body << "} else ";
        }
        body << "{ __CPROVER_assert(0, \"indirect call: target outside candidate set\"); __CPROVER_assume(0); }\n";
      }
      (void)FT;
    }
    // exception propagation
    if (auto* II = dyn_cast<InvokeInst>(&CB)) {
      if (mayThrow(&CB) && !handled) body << "  if (__vx_active) { " << edge(BB, II->getUnwindDest()) << " }\n";
      body << "  " << edge(BB, II->getNormalDest()) << "\n";
    } else if (!handled && mayThrow(&CB)) {
      body << "  if (__vx_active) { " << retZero << " }\n";
    }
  }

  // ---------------------------------------------------------------- driver
  void run(const std::vector<std::string>& entries, std::ostream& out) {
    for (auto& e : entries) {
      Function* F = M.getFunction(e);
      if (!F) die("entry not found: " + e);
      needGlobal(F);
    }
    // global ctors
    std::vector<const Function*> ctors;
    if (auto* GC = M.getGlobalVariable("llvm.global_ctors")) if (GC->hasInitializer()) if (auto* CA = dyn_cast<ConstantArray>(GC->getInitializer()))
      for (auto& E : CA->operands()) { auto* CS = cast<ConstantStruct>(E.get()); if (auto* F = dyn_cast<Function>(CS->getOperand(1)->stripPointerCasts())) { ctors.push_back(F); needGlobal(F); } }
    std::ostringstream fns;
    std::vector<const Function*> emitted;
    while (!fnWork.empty()) {
      const Function* F = fnWork.back(); fnWork.pop_back();
      emitFunction(F, fns);
      emitted.push_back(F);
    }
    // globals (after functions were scanned)
    std::ostringstream gdecl, gdef;
    for (size_t i = 0; i < gvOrder.size(); ++i) {   // may grow while emitting initialisers
      const GlobalVariable* GV = gvOrder[i];
      std::string t = cty(GV->getValueType());
      gdecl << (GV->hasInitializer() ? "" : "extern ") << t << " " << gname(GV) << ";\n";
      if (GV->hasInitializer()) {
        const Constant* C = GV->getInitializer();
        std::string init = (isa<ConstantStruct>(C) || isa<ConstantArray>(C) || isa<ConstantDataSequential>(C) || isa<ConstantAggregateZero>(C)) ? initList(C) : constExpr(C, true);
        gdef << t << " " << gname(GV) << " = " << init << ";\n";
      } else if (!modelFns.count(GV->getName().str())) {
        // external data the model does not define: give it storage
        gdef << t << " " << gname(GV) << ";\n";
      }
    }
    // functions may have been added by global initialisers (vtables)
    while (!fnWork.empty()) {
      const Function* F = fnWork.back(); fnWork.pop_back();
      emitFunction(F, fns);
      emitted.push_back(F);
      for (size_t i = 0; i < gvOrder.size(); ++i) {}
    }
    // NOTE: globals discovered late
    std::ostringstream gdecl2, gdef2;
    {
      static std::set<const GlobalVariable*> done;
      // re-emit everything cleanly: simplest is to recompute
      gdecl.str(""); gdef.str("");
      for (size_t i = 0; i < gvOrder.size(); ++i) {
        const GlobalVariable* GV = gvOrder[i];
        std::string t = cty(GV->getValueType());
        gdecl << (GV->hasInitializer() ? "" : "extern ") << t << " " << gname(GV) << ";\n";
        if (GV->hasInitializer()) {
          const Constant* C = GV->getInitializer();
          std::string init = (isa<ConstantStruct>(C) || isa<ConstantArray>(C) || isa<ConstantDataSequential>(C) || isa<ConstantAggregateZero>(C)) ? initList(C) : constExpr(C, true);
          gdef << t << " " << gname(GV) << " = " << init << ";\n";
        } else if (!modelFns.count(GV->getName().str())) gdef << t << " " << gname(GV) << ";\n";
      }
      while (!fnWork.empty()) { const Function* F = fnWork.back(); fnWork.pop_back(); emitFunction(F, fns); emitted.push_back(F); }
    }
    // typeinfo hierarchy
    static const char* stdTI[] = {"_ZTISt9exception","_ZTISt11logic_error","_ZTISt13runtime_error","_ZTISt12out_of_range","_ZTISt16invalid_argument","_ZTISt12length_error","_ZTISt9bad_alloc","_ZTISt20bad_array_new_length", nullptr};
    static const char* stdBase[][2] = {{"_ZTISt11logic_error","_ZTISt9exception"},{"_ZTISt13runtime_error","_ZTISt9exception"},{"_ZTISt12out_of_range","_ZTISt11logic_error"},{"_ZTISt16invalid_argument","_ZTISt11logic_error"},{"_ZTISt12length_error","_ZTISt11logic_error"},{"_ZTISt9bad_alloc","_ZTISt9exception"},{"_ZTISt20bad_array_new_length","_ZTISt9bad_alloc"},{nullptr,nullptr}};
    std::ostringstream tiExtra, tiFn;
    for (int i = 0; stdTI[i]; ++i) {
      if (auto* G = M.getNamedGlobal(stdTI[i])) { if (!reachGVs.count(G)) { reachGVs.insert(G); tiExtra << cty(G->getValueType()) << " " << gname(G) << ";\n"; } }
      else tiExtra << "void* " << stdTI[i] << ";\n";
    }
    tiFn << "void* __vx_ti_base(void* ti) {\n";
    for (int i = 0; stdBase[i][0]; ++i) tiFn << "  if (ti == (void*)&" << stdBase[i][0] << ") return (void*)&" << stdBase[i][1] << ";\n";
    for (const GlobalVariable* GV : gvOrder) {
      if (!GV->getName().startswith("_ZTI") || !GV->hasInitializer()) continue;
      auto* CS = dyn_cast<ConstantStruct>(GV->getInitializer());
      if (!CS || CS->getNumOperands() < 3) continue;
      if (auto* B = dyn_cast<GlobalVariable>(CS->getOperand(2)->stripPointerCasts()))
        tiFn << "  if (ti == (void*)&" << gname(GV) << ") return (void*)&" << gname(B) << ";\n";
    }
    tiFn << "  return 0;\n}\n";
    tiFn << "void* __vx_std_ti(int k) {\n  switch (k) {\n";
    for (int i = 0; stdTI[i]; ++i) tiFn << "  case " << i << ": return (void*)&" << stdTI[i] << ";\n";
    tiFn << "  }\n  return 0;\n}\n";
    std::ostringstream protos;
    for (const Function* F : emitted) protos << fnProto(F) << ";\n";

    out << "/* generated by ir2c - do not edit */\n#include <stdint.h>\n#include <stddef.h>\n#include <string.h>\n#include <stdlib.h>\n#include <math.h>\n#include \"vx_runtime.h\"\n\n";
    out << fwdDecls.str() << "\n" << typeDefs.str() << "\n";
    out << "/* normalised externals */\n" << extProtos.str() << "\n";
    out << "/* prototypes */\n" << protos.str() << "\n";
    out << "/* globals */\n" << gdecl.str() << "\n" << gdef.str() << "\n";
    out << "/* typeinfo */\n" << tiExtra.str() << tiFn.str() << "\n";
    out << "/* unmodelled externals */\n" << extStubs.str() << "\n";
    out << fns.str();
    out << "void __vx_global_ctors(void) {\n";
    for (auto* F : ctors) out << "  " << gname(F) << "();\n";
    out << "}\n";
  }
};

int main(int argc, char** argv) {
  std::vector<std::string> entries;
  std::string in, outp;
  for (int i = 1; i < argc; ++i) {
    std::string a = argv[i];
    if (a == "--entry") entries.push_back(argv[++i]);
    else if (a == "--out") outp = argv[++i];
    else if (a == "--ub-checks") optUB = true;
    else if (a == "--model-list") { std::ifstream f(argv[++i]); std::string l; while (std::getline(f, l)) if (!l.empty()) modelFns.insert(l); }
    else if (a == "--stub") stubbedFns.insert(argv[++i]);
    else if (a == "--noop") noopFns.insert(argv[++i]);
    else if (a == "--guard-list") { std::ifstream f(argv[++i]); std::string l; while (std::getline(f, l)) if (!l.empty()) guardFns.insert(l); }
    else in = a;
  }
  LLVMContext C; SMDiagnostic E;
  auto M = parseIRFile(in, E, C);
  if (!M) { E.print("ir2c", errs()); return 1; }
  Emitter em(*M);
  std::ofstream out(outp);
  em.run(entries, out);
  return 0;
}
